#!/bin/bash
# usage: confirm_seeded.sh <dir with mutant.patch + demo.*> <id>
# Confirms a seeded change in a scratch worktree: the patch applies, the demonstration fails with it and passes
# without it, and the repository's full test suite still builds and passes with it.  Writes a report.
set -u
SRC=$1; ID=$2
WT=${CONFIRM_WT:-/tmp/wt/confirm}
REPORT=/tmp/wt/confirm_results/$ID.txt
if [ ! -d "$WT" ]; then git -C /repo worktree add -q --detach "$WT" HEAD || exit 2; fi
git -C "$WT" checkout -q --detach "$(git -C /repo rev-parse HEAD)"; git -C "$WT" checkout -q -- .
{
echo "== $ID  $(date)"
DEMO=$(ls "$SRC"/demo.cpp "$SRC"/demo.sh "$SRC"/demo.py 2>/dev/null | head -1)
run_demo () {   # $1 = tree
  case "$DEMO" in
    *.cpp) CMD=$(grep -m1 -oE "(g\+\+|clang\+\+)[^&]*demo\.cpp[^&]*" "$DEMO" | head -1); [ -z "$CMD" ] && CMD="g++ -std=c++17 -I source/include demo.cpp -o demo"
           ( cd "$1" && cp "$DEMO" demo.cpp && eval "$CMD" 2>&1 | tail -3 && ./demo > /dev/null 2>demo.err; echo "demo exit=$?"; tail -2 demo.err | cut -c1-300; rm -f demo demo.cpp demo.err ) ;;
    *.sh)  ( cd "$1" && cp "$SRC"/demo* . && bash demo.sh > /dev/null 2>demo.err; echo "demo exit=$?"; tail -2 demo.err | cut -c1-300; rm -f demo.sh demo_* demo.err ) ;;
    *.py)  ( cd "$1" && cp "$DEMO" demo.py && python3 demo.py > /dev/null 2>demo.err; echo "demo exit=$?"; tail -2 demo.err | cut -c1-300; rm -f demo.py demo.err ) ;;
  esac
}
echo "-- demo on the unmodified tree:"; run_demo "$WT"
if ! git -C "$WT" apply "$SRC/mutant.patch"; then echo "PATCH DOES NOT APPLY"; exit 1; fi
echo "-- demo with the change:"; run_demo "$WT"
if [ "${SKIP_SUITE:-0}" != "1" ]; then
  echo "-- full test suite with the change:"
  cmake -G Ninja -S "$WT" -B "$WT/_build" -DCMAKE_BUILD_TYPE=RelWithDebInfo > /dev/null 2>&1
  cmake --build "$WT/_build" -j${JOBS:-8} 2>&1 | grep -E "error|FAILED|ninja: build stopped" | head -5
  ctest --test-dir "$WT/_build" -j${JOBS:-8} --timeout 900 2>&1 | tail -4
fi
git -C "$WT" checkout -q -- .
echo "== done $(date)"
} > "$REPORT" 2>&1
