#!/bin/bash
# usage: selftest/run_mutant.sh <patch-file> <Cxx> [<Cxx> ...]
# Applies the patch to a scratch worktree of /repo (outside /repo and /verif), points the checks at it through
# SVMON_REPO (an override used only here), runs the quick checks and prints their exit codes.  Evidence and
# replays of these runs go to a scratch directory so that the committed evidence is never touched.
set -u
PATCH=$(readlink -f "$1"); shift
WT=${SVMON_MUT_WT:-/tmp/wt/mut}
VERIF=$(cd "$(dirname "$0")/.." && pwd)
if [ ! -d "$WT" ]; then git -C /repo worktree add -q --detach "$WT" HEAD || exit 2; fi
git -C "$WT" checkout -q --detach "$(git -C /repo rev-parse HEAD)" && git -C "$WT" checkout -q -- . && git -C "$WT" clean -fdq
if ! git -C "$WT" apply "$PATCH"; then echo "PATCH-DOES-NOT-APPLY $PATCH"; exit 2; fi
OUT=$(mktemp -d /tmp/svmon-selftest.XXXXXX)
for P in "$@"; do
  ( cd "$VERIF" && SVMON_REPO="$WT" SVMON_EVIDENCE="$OUT/evidence" SVMON_REPLAYS="$OUT/replays" timeout 3000 python3 bin/check.py "$P" --tier "${TIER:-quick}" > "$OUT/$P.log" 2>&1 )
  RC=$?
  echo "MUTANT $(basename "$PATCH") $P exit=$RC $(grep -c '^VIOLATION' "$OUT/$P.log") violation line(s); first: $(grep -m1 -A1 '^VIOLATION' "$OUT/$P.log" | tail -1 | cut -c1-160)"
done
git -C "$WT" checkout -q -- . 
rm -rf "$OUT"
