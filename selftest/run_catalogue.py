#!/usr/bin/env python3
"""Runs every mutant of selftest/mutants/catalogue.json against the quick checks it is expected to fire
(and, for negative controls, against a representative set), prints a table and writes selftest/results.json."""
import json, os, subprocess, sys
HERE = os.path.dirname(os.path.abspath(__file__))
cat = json.load(open(os.path.join(HERE, "mutants", "catalogue.json")))
only = sys.argv[1:]
res = {}
NEG = ["C01", "C02", "C05", "C09", "C10", "C14"]
for m in cat:
    if only and m["id"] not in only:
        continue
    props = m["expected_to_fire"] or NEG
    p = subprocess.run([os.path.join(HERE, "run_mutant.sh"), os.path.join(HERE, "mutants", m["id"] + ".patch")] + props, capture_output=True, text=True)
    for line in p.stdout.splitlines():
        if line.startswith("MUTANT"):
            parts = line.split()
            prop, rc = parts[2], int(parts[3].split("=")[1])
            ok = (rc == 1) if m["expected_to_fire"] else (rc == 0)
            res.setdefault(m["id"], {})[prop] = {"exit": rc, "as_expected": ok, "first": line.split("first:", 1)[-1].strip()[:200]}
            print("%-28s %s exit=%d %s  %s" % (m["id"], prop, rc, "ok" if ok else "UNEXPECTED", line.split("first:", 1)[-1].strip()[:110]), flush=True)
    if p.returncode != 0 and not p.stdout.strip():
        print(m["id"], "driver failed:", p.stderr[-300:])
old = {}
rp = os.path.join(HERE, "results.json")
if os.path.exists(rp):
    old = json.load(open(rp))
old.update(res)
json.dump(old, open(rp, "w"), indent=1, sort_keys=True)
