#!/usr/bin/env python3
"""Generates the self-test mutant catalogue (selftest/mutants/*.patch) from /repo's current header by
pattern replacement.  Each entry: id, properties whose quick check must exit 1, description, (old, new[, occurrence])."""
import os, subprocess, sys, json
REPO = "/repo"
HDR = "source/include/gch/small_vector.hpp"
PRN = "source/support/python/gch/gdb/prettyprinters/small_vector/prettyprinter.py"
OUT = os.path.join(os.path.dirname(os.path.abspath(__file__)), "mutants")

M = [
 ("M01-steal-assign-le", ["C09", "C02"], "move_assign_default steals when capacity == destination N", HDR,
  "        if (InlineCapacity < other.get_capacity ())\n          move_allocation_pointer (std::move (other));", "        if (InlineCapacity <= other.get_capacity ())\n          move_allocation_pointer (std::move (other));"),
 ("M02-steal-ctor-le", ["C09", "C02"], "move_initialize steals when capacity == destination N", HDR,
  "        if (InlineCapacity < other.get_capacity ())\n        {\n          set_data (other.data_ptr (), other.get_capacity (), other.get_size ());", "        if (InlineCapacity <= other.get_capacity ())\n        {\n          set_data (other.data_ptr (), other.get_capacity (), other.get_size ());"),
 ("M03-growth-1.25", ["C14"], "growth factor 1.25", HDR,
  "        const size_ty new_capacity = 2 * current_capacity;", "        const size_ty new_capacity = current_capacity + current_capacity / 4;"),
 ("M04-reserve-eq-reallocs", ["C10"], "reserve(capacity()) reallocates", HDR,
  "        if (request <= get_capacity ())\n          return;", "        if (request < get_capacity ())\n          return;"),
 ("M06-pushback-not-strong", ["C05"], "reallocating emplace_back relocates with plain move", HDR,
  "            uninitialized_move<strong_exception_policy> (begin_ptr (), end_ptr (), new_data_ptr);\n          }\n          GCH_CATCH (...)\n          {\n            destroy (emplace_pos);",
  "            uninitialized_move (begin_ptr (), end_ptr (), new_data_ptr);\n          }\n          GCH_CATCH (...)\n          {\n            destroy (emplace_pos);"),
 ("M07-assign-leak-on-throw", ["C06", "C04"], "assign(n,x) leaks the new block when a copy throws", HDR,
  "            uninitialized_fill (new_begin, unchecked_next (new_begin, count), val);\n          }\n          GCH_CATCH (...)\n          {\n            deallocate (new_begin, new_capacity);",
  "            uninitialized_fill (new_begin, unchecked_next (new_begin, count), val);\n          }\n          GCH_CATCH (...)\n          {"),
 ("M08-insert-leak-elements", ["C06", "C03"], "insert(pos,n,x) reallocation handler forgets to destroy the constructed elements", HDR,
  "            uninitialized_move (pos, end_ptr (), new_last);\n          }\n          GCH_CATCH (...)\n          {\n            destroy_range (new_first, new_last);\n            deallocate (new_data_ptr, new_capacity);\n            GCH_THROW;\n          }\n\n          reset_data (new_data_ptr, new_capacity, new_size);\n          return unchecked_next (begin_ptr (), offset);\n        }\n        else\n        {\n          // If we have fewer",
  "            uninitialized_move (pos, end_ptr (), new_last);\n          }\n          GCH_CATCH (...)\n          {\n            deallocate (new_data_ptr, new_capacity);\n            GCH_THROW;\n          }\n\n          reset_data (new_data_ptr, new_capacity, new_size);\n          return unchecked_next (begin_ptr (), offset);\n        }\n        else\n        {\n          // If we have fewer"),
 ("M09-emplace-no-temporary", ["C11"], "emplace(pos, v[i]) without the aliasing temporary", HDR,
  "        stack_temporary tmp (*this, std::forward<Args> (args)...);\n        shift_into_uninitialized (pos, 1);\n        *pos = tmp.release ();",
  "        shift_into_uninitialized (pos, 1);\n        *pos = value_ty (std::forward<Args> (args)...);"),
 ("M10-pocca-not-propagated", ["C07"], "copy assignment forgets to propagate the allocator (equal-allocator path)", HDR,
  "          set_size (other.get_size ());\n        }\n\n        alloc_interface::maybe_copy (other);\n        return *this;", "          set_size (other.get_size ());\n        }\n\n        return *this;"),
 ("M11-soccc-bypassed", ["C07"], "copy construction bypasses select_on_container_copy_construction", HDR,
  "        : alloc_base (alloc_traits::select_on_container_copy_construction (other.allocator_ref ()))", "        : alloc_base (other.allocator_ref ())"),
 ("M13-erase-no-destroy", ["C03"], "erase_to_end does not destroy the erased elements", HDR,
  "          decrease_size (change);\n          destroy_range (pos, unchecked_next (pos, change));", "          decrease_size (change);"),
 ("M14-erase-range-return", ["C01"], "erase(first,last) returns last", HDR,
  "          erase_to_end (move_left (last, end_ptr (), first));\n        return first;", "          erase_to_end (move_left (last, end_ptr (), first));\n        return last;"),
 ("M15-greater-flipped", ["C16"], "pre-C++20 operator> (different capacities) compares the wrong way round", HDR,
  "  operator>  (const small_vector<T, InlineCapacityLHS, Allocator>& lhs,\n              const small_vector<T, InlineCapacityRHS, Allocator>& rhs)\n  {\n    return rhs < lhs;", "  operator>  (const small_vector<T, InlineCapacityLHS, Allocator>& lhs,\n              const small_vector<T, InlineCapacityRHS, Allocator>& rhs)\n  {\n    return lhs < rhs;"),
 ("M16-count-ctor-unchecked", ["C12"], "checked_allocate no longer checks max_size()", HDR,
  "        if (get_max_size () < n)\n          throw_allocation_size_error ();\n        return unchecked_allocate (n);", "        return unchecked_allocate (n);"),
 ("M17-assign-input-peeks", ["C15"], "assign(input range) dereferences every position twice", HDR,
  "        for (; ! (end_ptr () == curr || first == last); ++curr, static_cast<void> (++first))\n          *curr = *first;", "        for (; ! (end_ptr () == curr || first == last); ++curr, static_cast<void> (++first))\n        {\n          static_cast<void> (*first);\n          *curr = *first;\n        }"),
 ("M18-clear-not-noexcept", ["C18"], "clear() loses noexcept", HDR,
  "    clear (void) noexcept\n", "    clear (void)\n"),
 ("M19-printer-size-capacity", ["C20"], "pretty printer prints m_capacity as the length", PRN,
  "    size = int(self.data_base['m_size'])\n    capacity = int(self.data_base['m_capacity'])\n    return", "    size = int(self.data_base['m_capacity'])\n    capacity = int(self.data_base['m_capacity'])\n    return"),
 ("M20-default-size-formula", ["C19"], "default_buffer_size ignores the real size of the empty vector", HDR,
  "    ideal_buffer = ideal_total - sizeof (empty_small_vector);", "    ideal_buffer = ideal_total - 3 * sizeof (void *);"),
 ("M21-bool-memcpy", ["C13"], "integral memcpy shortcut no longer excludes bool", HDR,
  "            &&  (std::is_same<bool, from>::value == std::is_same<bool, to>::value)\n", ""),
 ("M22-constexpr-branch-fill", ["C08"], "constant-evaluation branch of insert(pos,n,x) fills one element too few", HDR,
  "              std::fill_n (pos, tail_size, tmp.get ());\n\n              return pos;", "              std::fill_n (pos, tail_size ? tail_size - 1 : 0, tmp.get ());\n\n              return pos;"),
 ("M24-shrink-capacity", ["C02"], "shrink_to_fit into the inline buffer records capacity = size", HDR,
  "          // We move to inline storage.\n          new_capacity = InlineCapacity;", "          // We move to inline storage.\n          new_capacity = get_size ();"),
 ("M25-natvis-size", ["C20"], "natvis shows m_capacity as the array size", "source/support/visualstudio/small_vector.natvis",
  "        <Size>m_data.m_size</Size>", "        <Size>m_data.m_capacity</Size>"),
 ("M26-std17-only-growth", ["C17"], "growth policy differs when concepts are available", HDR,
  "        const size_ty new_capacity = 2 * current_capacity;", "#ifdef GCH_LIB_CONCEPTS\n        const size_ty new_capacity = 2 * current_capacity + 1;\n#else\n        const size_ty new_capacity = 2 * current_capacity;\n#endif"),
 ("M27-iterator-minus", ["C01"], "small_vector_iterator::operator-(n) adds", HDR,
  "      return small_vector_iterator (m_ptr - n);", "      return small_vector_iterator (m_ptr + n);"),
 ("M28-iterator-postdec", ["C01"], "small_vector_iterator::operator--(int) returns the decremented iterator", HDR,
  "      return small_vector_iterator (m_ptr--);", "      return small_vector_iterator (--m_ptr);"),
 ("M29-growth-no-saturation", ["C12"], "capacity doubling without the saturation test (2*capacity wraps / truncates near max_size)", HDR,
  "        if (get_max_size () - current_capacity <= current_capacity)\n          return get_max_size ();\n", ""),
 ("M30-cx-heaptmp-leak", ["C08"], "heap_temporary (constant evaluation only) never gives its block back", HDR,
  "          m_interface.destroy (m_data_ptr);\n          m_interface.deallocate (m_data_ptr, sizeof (value_ty));", "          m_interface.destroy (m_data_ptr);"),
 ("M31-cx-insert-alias", ["C08"], "constant-evaluated insert(pos,n,v[i]) fills from the aliased argument instead of the temporary", HDR,
  "              ptr inserted_end = shift_into_uninitialized (pos, count);\n              std::fill (pos, inserted_end, tmp.get ());", "              ptr inserted_end = shift_into_uninitialized (pos, count);\n              std::fill (pos, inserted_end, val);"),
 ("M32-inline-align-capped", ["C02"], "inline buffer alignment capped at alignof(max_align_t): over-aligned elements sit misaligned in the object", HDR,
  "      union alignas (alignof (value_ty)) {", "      union alignas (alignof (value_ty) < alignof (std::max_align_t) ? alignof (value_ty) : alignof (std::max_align_t)) {"),
 # negative controls: behaviour-preserving edits, every check must stay silent
 ("N01-growth-1.5", [], "NEGATIVE CONTROL: growth factor 1.5 (allowed by C14)", HDR,
  "        const size_ty new_capacity = 2 * current_capacity;", "        const size_ty new_capacity = current_capacity + (current_capacity / 2);"),
 ("N02-reorder", [], "NEGATIVE CONTROL: independent statements reordered in shrink_to_size", HDR,
  "        set_data_ptr (new_data_ptr);\n        set_capacity (new_capacity);\n\n        return begin_ptr ();", "        set_capacity (new_capacity);\n        set_data_ptr (new_data_ptr);\n\n        return begin_ptr ();"),
]

def main():
    os.makedirs(OUT, exist_ok=True)
    cat = []
    for mid, props, desc, path, old, new in M:
        src = open(os.path.join(REPO, path)).read()
        if src.count(old) != 1:
            print("SKIP %s: pattern occurs %d times" % (mid, src.count(old)))
            continue
        tmp = "/tmp/wt/gen"
        os.makedirs(os.path.join(tmp, "a", os.path.dirname(path)), exist_ok=True)
        os.makedirs(os.path.join(tmp, "b", os.path.dirname(path)), exist_ok=True)
        open(os.path.join(tmp, "a", path), "w").write(src)
        open(os.path.join(tmp, "b", path), "w").write(src.replace(old, new))
        p = subprocess.run(["diff", "-u", "--label", "a/" + path, "--label", "b/" + path, os.path.join(tmp, "a", path), os.path.join(tmp, "b", path)], capture_output=True, text=True)
        open(os.path.join(OUT, mid + ".patch"), "w").write(p.stdout)
        cat.append({"id": mid, "expected_to_fire": props, "description": desc, "file": path})
    json.dump(cat, open(os.path.join(OUT, "catalogue.json"), "w"), indent=1)
    print("wrote %d mutants" % len(cat))

main()
