#!/usr/bin/env python3
"""record_seeded.py <id> <property> <caught-by ...>  -- copies a confirmed seeded change from /tmp/wt/<id> into
/verif/seeded/<id>/ (patch.diff, demonstration, meta.json)."""
import json, os, shutil, sys, re
sid, prop = sys.argv[1], sys.argv[2]
caught = sys.argv[3:]
src = "/tmp/wt/%s" % sid
dst = os.path.join(os.path.dirname(os.path.dirname(os.path.abspath(__file__))), "seeded", sid)
os.makedirs(dst, exist_ok=True)
shutil.copy(os.path.join(src, "mutant.patch"), os.path.join(dst, "patch.diff"))
demo = sorted(f for f in os.listdir(src) if f.startswith("demo") and os.path.isfile(os.path.join(src, f)) and not os.access(os.path.join(src, f), os.X_OK) or f in ("demo.sh", "demo.py"))
demo = [f for f in demo if os.path.exists(os.path.join(src, f)) and os.path.getsize(os.path.join(src, f)) < 200000 and f.split(".")[-1] in ("cpp", "sh", "py", "hpp", "gdb", "txt")]
for f in demo:
    shutil.copy(os.path.join(src, f), os.path.join(dst, f))
meta_txt = open(os.path.join(src, "meta.txt")).read() if os.path.exists(os.path.join(src, "meta.txt")) else ""
rep = open("/tmp/wt/confirm_results/%s.txt" % sid).read() if os.path.exists("/tmp/wt/confirm_results/%s.txt" % sid) else ""
exits = re.findall(r"demo exit=(\d+)", rep)
suite = re.search(r"(\d+)% tests passed, (\d+) tests failed out of (\d+)", rep)
meta = {
    "id": sid,
    "breaks_property": prop,
    "origin": "written by an independent sub-agent that saw only the property text and a scratch worktree of /repo (nothing from /verif)",
    "needs_to_manifest": meta_txt.strip(),
    "demonstration": demo,
    "confirmed_by_me": {
        "where": "scratch worktree /tmp/wt/confirm (removed afterwards), /repo HEAD %s" % os.popen("git -C /repo rev-parse --short HEAD").read().strip(),
        "demo_exit_unmodified_tree": int(exits[0]) if len(exits) > 0 else None,
        "demo_exit_with_change": int(exits[1]) if len(exits) > 1 else None,
        "full_test_suite_with_change": ("%s%% passed, %s failed of %s" % suite.groups()) if suite else "not run",
        "commands": ["git apply patch.diff", "compile+run the demonstration with and without the change", "cmake --build (all 815 targets) && ctest (575 tests) with the change"],
    },
    "caught_by_checks": caught,
    "how_run_against_checks": "selftest/run_mutant.sh seeded/%s/patch.diff %s  (scratch worktree + SVMON_REPO override; equivalent to git -C /repo apply / checkout)" % (sid, " ".join(caught)),
}
json.dump(meta, open(os.path.join(dst, "meta.json"), "w"), indent=1)
print("recorded", dst, meta["confirmed_by_me"])
