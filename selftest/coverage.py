#!/usr/bin/env python3
"""coverage.py [--out selftest/coverage.json] [--jobs 16]

Reach report for the workloads: which executable lines of small_vector.hpp do the quick-tier
workloads of the engines actually execute?  Not a check (it decides nothing); it is the measuring
stick used while extending the workloads, and DESIGN.md 12.4 quotes its output.

Every engine is rebuilt with `g++ -O0 --coverage -fno-inline` from /repo's working tree in a scratch
directory outside /verif (removed at the end), run with quick-tier arguments, and the per-line
counts for the header are merged.  The denominator is the union of (a) every line gcov considers
executable in some instantiation made by an engine and (b) the lines of explicitly instantiated
small_vector<int,3> / small_vector<std::string,0> / small_vector_iterator<int*> (so that members no
engine instantiates still show up, with count 0)."""
import argparse
import concurrent.futures as cf
import glob
import json
import os
import re
import shutil
import subprocess
import sys
import tempfile

VERIF = os.path.dirname(os.path.dirname(os.path.abspath(__file__)))
REPO = os.environ.get("SVMON_REPO", "/repo")
INC = ["-I", os.path.join(VERIF, "harness", "include"), "-I", os.path.join(REPO, "source", "include")]
SRC = os.path.join(VERIF, "harness", "src")


def hist_defs(T, alloc, NA, NB, pocca=0, pocma=0, pocs=0, ae=0, construct=0):
    return {"SV_T": T, "SV_ALLOC": alloc, "SV_NA": NA, "SV_NB": NB, "SV_POCCA": pocca, "SV_POCMA": pocma, "SV_POCS": pocs,
            "SV_AE": ae, "SV_CONSTRUCT": construct, "SV_SOCCC": 1}


HIST_RUNS = [["--mode", "random", "--cases", "600", "--len", "60", "--seed", "1"],
             ["--mode", "sweep", "--level", "0"],
             ["--mode", "fault", "--level", "0"],
             ["--mode", "rfault", "--cases", "300", "--len", "10", "--seed", "1"],
             ["--mode", "random", "--focus", "alloc", "--cases", "400", "--len", "60", "--seed", "2"],
             ["--mode", "random", "--focus", "small", "--cases", "300", "--len", "40", "--seed", "8"]]


def plan():
    p = []
    hist = {"int-std": hist_defs("int", 0, 2, 5), "tnx-l000": hist_defs("TNx", 1, 2, 5), "tthrow-l011": hist_defs("TThrow", 1, 5, 2, 0, 1, 1),
            "tmo-l111": hist_defs("TMoveOnly", 1, 1, 8, 1, 1, 1), "tco-l010": hist_defs("TCopyOnly", 1, 3, 0, 0, 1, 0),
            "tsw-l110": hist_defs("TSwapThrow", 1, 2, 2, 1, 1, 0), "tnx-l101ae": hist_defs("TNx", 1, 3, 0, 1, 0, 1, 1),
            "tas-l000": hist_defs("TAssignThrow", 1, 2, 5), "tthrow-l000": hist_defs("TThrow", 1, 0, 3),
            "tmot-l001": hist_defs("TMoveOnlyThrow", 1, 2, 5, 0, 0, 1), "tnx-l000c": hist_defs("TNx", 1, 1, 4, 0, 0, 0, 0, 1)}
    for k, d in hist.items():
        p.append(("hist", "hist/" + k, "hist.cpp", "c++17", d, HIST_RUNS))
    p.append(("hist", "hist/tnx-l000@20", "hist.cpp", "c++20", hist["tnx-l000"], HIST_RUNS[:2]))
    for g in range(5):
        runs = [["--seed", "1", "--shard", "0", "--nshards", "8"]] if g == 0 else [["--seed", "1"]]
        p.append(("limits", "limits/g%d/dbg" % g, "limits.cpp", "c++17", {"LIM_GROUP": g}, runs))
        p.append(("limits", "limits/g%d/rel" % g, "limits.cpp", "c++17", {"LIM_GROUP": g, "NDEBUG": None}, runs))
    p.append(("growth", "growth", "growth.cpp", "c++17", {}, [["--n", "30000", "--seed", "1", "--part", "all"]]))
    for t in ("int", "lteq", "double", "nan"):
        p.append(("cmp", "cmp/17/" + t, "cmp.cpp", "c++17", {}, [["--type", t, "--maxlen", "3"]]))
    for t in ("ship", "partial"):
        p.append(("cmp", "cmp/20/" + t, "cmp.cpp", "c++20", {}, [["--type", t, "--maxlen", "3"]]))
    for part in range(1, 9):
        p.append(("conv", "conv/part%d" % part, "conv.cpp", "c++17", {"CONV_PART": part}, [[]]))
    p.append(("xstd", "xstd/17", "xstd.cpp", "c++17", {}, [["--seed", "1", "--cases", "200", "--len", "40"]]))
    p.append(("xstd", "xstd/20", "xstd.cpp", "c++20", {}, [["--seed", "1", "--cases", "200", "--len", "40"]]))
    p.append(("xstd", "xstd/twin", "xstd.cpp", "c++17", {"XSTD_TWIN": None}, [["--seed", "1", "--cases", "200", "--len", "40"]]))
    p.append(("traits", "traits/17", "traits.cpp", "c++17", {}, [[]]))
    p.append(("gdbinf", "gdbinf", "gdbinf.cpp", "c++17", {}, [[]]))
    return p


BASE = r"""
#include <gch/small_vector.hpp>
#include <string>
template class gch::small_vector<int, 3>;
template class gch::small_vector<std::string, 0>;
template class gch::small_vector_iterator<int *, std::ptrdiff_t>;
template class gch::detail::small_vector_base<std::allocator<int>, 3>;
template class gch::detail::small_vector_base<std::allocator<std::string>, 0>;
template class gch::detail::allocator_interface<std::allocator<int>>;
template class gch::detail::allocator_interface<std::allocator<std::string>>;
int main () { }
"""


def parse_gcov(path):
    cov, src = {}, {}
    for ln in open(path, errors="replace"):
        m = re.match(r"\s*([^:]+):\s*(\d+):(.*)", ln)
        if not m:
            continue
        c, n, s = m.group(1).strip(), int(m.group(2)), m.group(3)
        if n == 0:
            continue
        src.setdefault(n, s)
        if c == "-":
            continue
        v = 0 if c[0] in "#=" else int(re.sub(r"\D", "", c) or 0)
        cov[n] = max(cov.get(n, 0), v)
    return cov, src


def one(work, item):
    engine, name, src, std, defs, runs = item
    d = os.path.join(work, name.replace("/", "_").replace("@", "_"))
    os.makedirs(d)
    dflags = ["-D%s=%s" % (k, v) if v is not None else "-D" + k for k, v in defs.items()]
    cmd = ["g++", "-std=" + std, "-O0", "--coverage", "-fno-inline", "-DSVMON_GCOV"] + dflags + INC + [os.path.join(SRC, src), "-o", "eng"]
    r = subprocess.run(cmd, cwd=d, capture_output=True, text=True)
    if r.returncode != 0:
        return name, engine, None, "build failed: " + r.stderr[-600:]
    env = dict(os.environ, SVMON_NO_POISON="1")
    rcs = []
    for a in runs:
        rr = subprocess.run(["./eng"] + a, cwd=d, capture_output=True, text=True, env=env, timeout=7200)
        rcs.append(rr.returncode)
    gc = glob.glob(os.path.join(d, "*.gcda"))
    if not gc:
        return name, engine, None, "no .gcda produced (rc %s)" % rcs
    subprocess.run(["gcov", "-m", os.path.basename(gc[0])], cwd=d, capture_output=True, text=True)
    f = os.path.join(d, "small_vector.hpp.gcov")
    if not os.path.exists(f):
        return name, engine, None, "no header coverage"
    cov, src_ = parse_gcov(f)
    shutil.rmtree(d, ignore_errors=True)
    return name, engine, (cov, src_), "rc=%s" % rcs


def main():
    ap = argparse.ArgumentParser()
    ap.add_argument("--out", default=os.path.join(VERIF, "selftest", "coverage.json"))
    ap.add_argument("--jobs", type=int, default=int(os.environ.get("SVMON_JOBS", "16")))
    ap.add_argument("--only", default=None, help="engine name filter")
    a = ap.parse_args()
    work = tempfile.mkdtemp(prefix="svcov.")
    try:
        items = [i for i in plan() if not a.only or i[0] == a.only]
        union, src, per_engine = {}, {}, {}
        # baseline: explicitly instantiated members, never run
        for std in ("c++17", "c++20"):
            d = os.path.join(work, "base_" + std)
            os.makedirs(d)
            open(os.path.join(d, "base.cpp"), "w").write(BASE)
            r = subprocess.run(["g++", "-std=" + std, "-O0", "--coverage", "-fno-inline", "-c", "base.cpp"] + INC, cwd=d, capture_output=True, text=True)
            if r.returncode == 0:
                subprocess.run(["gcov", "-m", "base.gcno"], cwd=d, capture_output=True, text=True)
                f = os.path.join(d, "small_vector.hpp.gcov")
                if os.path.exists(f):
                    cov, s = parse_gcov(f)
                    for n in cov:
                        union.setdefault(n, 0)
                    src.update(s)
        base_lines = len(union)
        with cf.ThreadPoolExecutor(a.jobs) as ex:
            for name, engine, res, note in ex.map(lambda it: one(work, it), items):
                print("%-22s %s" % (name, note if res is None else "ok " + note), file=sys.stderr, flush=True)
                if res is None:
                    continue
                cov, s = res
                src.update({k: v for k, v in s.items() if k not in src})
                pe = per_engine.setdefault(engine, {})
                for n, v in cov.items():
                    union[n] = max(union.get(n, 0), v)
                    pe[n] = max(pe.get(n, 0), v)
        hit = sorted(n for n, v in union.items() if v > 0)
        miss = sorted(n for n, v in union.items() if v == 0)
        out = {"header": os.path.join(REPO, "source/include/gch/small_vector.hpp"),
               "executable_lines": len(union), "baseline_lines": base_lines, "hit": len(hit), "never_executed": len(miss),
               "per_engine": {e: {"instantiated": len(c), "hit": sum(1 for v in c.values() if v > 0)} for e, c in sorted(per_engine.items())},
               "never_executed_lines": [{"line": n, "text": src.get(n, "").strip()[:110]} for n in miss]}
        json.dump(out, open(a.out, "w"), indent=1)
        print("header lines executable %d  hit %d  never executed %d" % (len(union), len(hit), len(miss)))
        for e, c in out["per_engine"].items():
            print("  %-8s instantiated %5d  hit %5d" % (e, c["instantiated"], c["hit"]))
        for m in out["never_executed_lines"]:
            print("  %5d  %s" % (m["line"], m["text"]))
    finally:
        shutil.rmtree(work, ignore_errors=True)


if __name__ == "__main__":
    main()
