// traits.cpp -- C18 static table: observed noexcept values / iterator traits / nested types against the
// documented contract (README synopsis), re-implemented here independently from the element and
// allocator traits.  Built as C++17 and C++20 (concepts on).
#include <svmon/core.hpp>
#include <svmon/alloc.hpp>
#include <gch/small_vector.hpp>
#include <type_traits>
#include <iterator>
#include <utility>

using namespace svmon;

template <bool MC, bool MA, bool SW>
struct Elem
{
  int v;
  Elem () : v (0) { }
  Elem (int x) : v (x) { }
  Elem (const Elem& o) : v (o.v) { }
  Elem& operator= (const Elem& o) { v = o.v; return *this; }
  Elem (Elem&& o) noexcept (MC) : v (o.v) { }
  Elem& operator= (Elem&& o) noexcept (MA) { v = o.v; return *this; }
  friend void swap (Elem& a, Elem& b) noexcept (SW) { int t = a.v; a.v = b.v; b.v = t; }
};

template <typename T> struct AStd { typedef std::allocator<T> type; static const char *name () { return "std"; } };
template <typename T> struct AAE  { typedef LedgerAlloc<T, ACfg<false, false, false, true> > type; static const char *name () { return "always-equal"; } };
template <typename T> struct A000 { typedef LedgerAlloc<T, ACfg<false, false, false, false> > type; static const char *name () { return "L000"; } };
template <typename T> struct A010 { typedef LedgerAlloc<T, ACfg<false, true, false, false> > type; static const char *name () { return "L010(pocma)"; } };
template <typename T> struct A001 { typedef LedgerAlloc<T, ACfg<false, false, true, false> > type; static const char *name () { return "L001(pocs)"; } };
template <typename T> struct A111 { typedef LedgerAlloc<T, ACfg<true, true, true, false> > type; static const char *name () { return "L111"; } };
template <typename T> struct ATD  { typedef LedgerAlloc<T, ACfg<false, false, false, false, std::size_t, 0, false, true> > type; static const char *name () { return "throwing-default"; } };
template <typename T> struct AU16 { typedef LedgerAlloc<T, ACfg<false, true, true, false, unsigned short> > type; static const char *name () { return "L011/u16"; } };

// ADL two-step nothrow-swappable (std::is_nothrow_swappable is C++17; the documented condition means exactly this)
namespace adl_probe
{
  using std::swap;
  template <typename T> struct nothrow_swappable : std::integral_constant<bool, noexcept (swap (std::declval<T&> (), std::declval<T&> ()))> { };
}

// is_always_equal takes part in the documented conditions only where the library can see it (C++17 feature-test macro)
#if defined(__cpp_lib_allocator_traits_is_always_equal)
#  define AE_VISIBLE 1
#else
#  define AE_VISIBLE 0
#endif

static long g_rows = 0;

static void row (const char *cfg, const char *what, bool observed, bool documented)
{
  ++g_rows;
  ++COV ().evaluations;
  COV ().tuple (format ("%s|%s|%d", cfg, what, int (documented)));
  if (observed != documented)
  {
    G ().opkey = what;
    G ().caseid = format ("%s/%s", cfg, what);
    violate ("C18", "noexcept.table", "%s: noexcept(%s) is %s but the documented condition gives %s", cfg, what,
             observed ? "true" : "false", documented ? "true" : "false");
  }
  if (g_rows % 301 == 1) COV ().sample (format ("%s: noexcept(%s) = %d (documented %d)", cfg, what, int (observed), int (documented)));
}

static void fact (const char *cfg, const char *what, bool holds)
{
  ++g_rows;
  ++COV ().evaluations;
  COV ().tuple (format ("%s|%s", cfg, what));
  if (! holds)
  {
    G ().opkey = what;
    G ().caseid = format ("%s/%s", cfg, what);
    violate ("C18", "traits.fact", "%s: %s does not hold", cfg, what);
  }
}

template <typename T, unsigned N, template <typename> class AK>
struct Grid
{
  typedef typename AK<T>::type A;
  typedef gch::small_vector<T, N, A> V;
  typedef std::allocator_traits<A> AT;

  static constexpr bool nmc = std::is_nothrow_move_constructible<T>::value;
  static constexpr bool nma = std::is_nothrow_move_assignable<T>::value;
  static constexpr bool nsw = adl_probe::nothrow_swappable<T>::value;
  static constexpr bool std_alloc = std::is_same<A, std::allocator<T> >::value;
  static constexpr bool always_eq = AE_VISIBLE && AT::is_always_equal::value;
  static constexpr bool movable = std_alloc || AT::propagate_on_container_move_assignment::value || always_eq;
  static constexpr bool swappable = std_alloc || AT::propagate_on_container_swap::value || always_eq;

  template <unsigned M>
  static void cross (const char *cfg)
  {
    typedef gch::small_vector<T, M, A> W;
    mstring c = format ("%s,srcN=%u", cfg, M);
    if (M < N)
    {
      row (c.c_str (), "V(W&&)", noexcept (V (std::declval<W&&> ())), nmc);
      row (c.c_str (), "v.assign(W&&)", noexcept (std::declval<V&> ().assign (std::declval<W&&> ())), movable && nma && nmc);
    }
    else if (M > N)
    {
      row (c.c_str (), "V(W&&)", noexcept (V (std::declval<W&&> ())), false);
      row (c.c_str (), "v.assign(W&&)", noexcept (std::declval<V&> ().assign (std::declval<W&&> ())), false);
    }
    row (c.c_str (), "V(W&&,alloc)", noexcept (V (std::declval<W&&> (), std::declval<const A&> ())), false);
    row (c.c_str (), "V(const W&)", noexcept (V (std::declval<const W&> ())), false);
  }

  static void run (const char *tname)
  {
    mstring cs = format ("T=%s,N=%u,A=%s", tname, N, AK<T>::name ());
    const char *cfg = cs.c_str ();
    V *pv = 0; const V *pc = 0;
    (void) pv; (void) pc;
    row (cfg, "V()", noexcept (V ()), noexcept (A ()));
    row (cfg, "V(V&&)", noexcept (V (std::declval<V&&> ())), nmc || N == 0);
    row (cfg, "V(alloc)", noexcept (V (std::declval<const A&> ())), true);
    row (cfg, "V(V&&,alloc)", noexcept (V (std::declval<V&&> (), std::declval<const A&> ())), false);
    row (cfg, "V(const V&)", noexcept (V (std::declval<const V&> ())), false);
    row (cfg, "v=V&&", noexcept (std::declval<V&> () = std::declval<V&&> ()), movable && ((nma && nmc) || N == 0));
    row (cfg, "v.assign(V&&)", noexcept (std::declval<V&> ().assign (std::declval<V&&> ())), movable && ((nma && nmc) || N == 0));
    row (cfg, "v.swap(v)", noexcept (std::declval<V&> ().swap (std::declval<V&> ())), swappable && ((nmc && nma && nsw) || N == 0));
    { using std::swap; row (cfg, "swap(v,v)", noexcept (swap (std::declval<V&> (), std::declval<V&> ())), swappable && ((nmc && nma && nsw) || N == 0)); }
    row (cfg, "v=const V&", noexcept (std::declval<V&> () = std::declval<const V&> ()), false);
    row (cfg, "v.clear()", noexcept (pv->clear ()), true);
    row (cfg, "begin/end", noexcept (pv->begin ()) && noexcept (pc->begin ()) && noexcept (pc->cbegin ()) && noexcept (pv->end ()) && noexcept (pc->end ()) && noexcept (pc->cend ()), true);
    row (cfg, "rbegin/rend", noexcept (pv->rbegin ()) && noexcept (pc->rbegin ()) && noexcept (pc->crbegin ()) && noexcept (pv->rend ()) && noexcept (pc->rend ()) && noexcept (pc->crend ()), true);
    row (cfg, "data", noexcept (pv->data ()) && noexcept (pc->data ()), true);
    row (cfg, "empty/size/max_size/capacity", noexcept (pc->empty ()) && noexcept (pc->size ()) && noexcept (pc->max_size ()) && noexcept (pc->capacity ()), true);
    row (cfg, "get_allocator", noexcept (pc->get_allocator ()), true);
    row (cfg, "inlined/inlinable/inline_capacity", noexcept (pc->inlined ()) && noexcept (pc->inlinable ()) && noexcept (V::inline_capacity ()), true);
    row (cfg, "nonmember begin..data", noexcept (gch::begin (*pv)) && noexcept (gch::end (*pc)) && noexcept (gch::cbegin (*pc)) && noexcept (gch::rbegin (*pv))
                                          && noexcept (gch::crend (*pc)) && noexcept (gch::size (*pc)) && noexcept (gch::ssize (*pc)) && noexcept (gch::empty (*pc)) && noexcept (gch::data (*pv)), true);
    // operations that must NOT be declared noexcept (they can allocate or run throwing element code)
    row (cfg, "v.reserve(n)", noexcept (pv->reserve (1)), false);
    row (cfg, "v.push_back(T&&)", noexcept (pv->push_back (std::declval<T&&> ())), false);
    row (cfg, "v.at(i)", noexcept (pv->at (0)), false);
    row (cfg, "v.shrink_to_fit()", noexcept (pv->shrink_to_fit ()), false);
    cross<0> (cfg); cross<2> (cfg); cross<3> (cfg); cross<5> (cfg);

    // iterators and nested types
    typedef typename V::iterator It;
    typedef typename V::const_iterator CIt;
    fact (cfg, "iterator trivially copyable", std::is_trivially_copyable<It>::value && std::is_trivially_copyable<CIt>::value);
    fact (cfg, "iterator_category is random_access", std::is_same<typename std::iterator_traits<It>::iterator_category, std::random_access_iterator_tag>::value
                                                     && std::is_same<typename std::iterator_traits<CIt>::iterator_category, std::random_access_iterator_tag>::value);
#if __cplusplus >= 202002L && defined(__cpp_lib_concepts)
    fact (cfg, "std::contiguous_iterator", std::contiguous_iterator<It> && std::contiguous_iterator<CIt>);
    fact (cfg, "std::ranges::contiguous_range", std::ranges::contiguous_range<V> && std::ranges::sized_range<V>);
#endif
    fact (cfg, "iterator -> const_iterator conversion", std::is_convertible<It, CIt>::value && ! std::is_convertible<CIt, It>::value);
    fact (cfg, "value_type", std::is_same<typename V::value_type, T>::value);
    fact (cfg, "allocator_type", std::is_same<typename V::allocator_type, A>::value);
    fact (cfg, "size_type", std::is_same<typename V::size_type, typename AT::size_type>::value);
    typedef typename std::make_signed<typename AT::size_type>::type SS;
    typedef typename AT::difference_type AD;
    typedef typename std::conditional<(sizeof (SS) < sizeof (AD)), SS, AD>::type ExpectedDiff;
    fact (cfg, "difference_type = min{signed size_type, allocator difference_type}", sizeof (typename V::difference_type) == sizeof (ExpectedDiff) && std::is_signed<typename V::difference_type>::value);
    fact (cfg, "reference/const_reference", std::is_same<typename V::reference, T&>::value && std::is_same<typename V::const_reference, const T&>::value);
    fact (cfg, "pointer/const_pointer", std::is_same<typename V::pointer, typename AT::pointer>::value && std::is_same<typename V::const_pointer, typename AT::const_pointer>::value);
    fact (cfg, "iterator = small_vector_iterator<pointer, difference_type>", std::is_same<It, gch::small_vector_iterator<typename V::pointer, typename V::difference_type> >::value
                                                                             && std::is_same<CIt, gch::small_vector_iterator<typename V::const_pointer, typename V::difference_type> >::value);
    fact (cfg, "reverse iterators", std::is_same<typename V::reverse_iterator, std::reverse_iterator<It> >::value && std::is_same<typename V::const_reverse_iterator, std::reverse_iterator<CIt> >::value);
    fact (cfg, "iterator difference_type", std::is_same<typename std::iterator_traits<It>::difference_type, typename V::difference_type>::value);
    fact (cfg, "inline_capacity_v", V::inline_capacity_v == N);
  }
};

template <typename T>
static void all_allocs (const char *tname)
{
  Grid<T, 0, AStd>::run (tname); Grid<T, 3, AStd>::run (tname);
  Grid<T, 0, AAE>::run (tname);  Grid<T, 3, AAE>::run (tname);
  Grid<T, 0, A000>::run (tname); Grid<T, 3, A000>::run (tname);
  Grid<T, 0, A010>::run (tname); Grid<T, 3, A010>::run (tname);
  Grid<T, 0, A001>::run (tname); Grid<T, 3, A001>::run (tname);
  Grid<T, 0, A111>::run (tname); Grid<T, 3, A111>::run (tname);
  Grid<T, 0, ATD>::run (tname);  Grid<T, 3, ATD>::run (tname);
  Grid<T, 0, AU16>::run (tname); Grid<T, 3, AU16>::run (tname);
}

int main ()
{
  setvbuf (stdout, 0, _IOLBF, 0);
  G ().engine = "traits";
  G ().monitors = ~0ull;
  std::fprintf (stdout, "{\"type\":\"config\",\"engine\":\"traits\",\"std\":%ld}\n", static_cast<long> (__cplusplus));
  all_allocs<Elem<true, true, true> > ("nx-mc/ma/sw");
  all_allocs<Elem<false, true, true> > ("throwing-mc");
  all_allocs<Elem<true, false, true> > ("throwing-ma");
  all_allocs<Elem<true, true, false> > ("throwing-swap");
  all_allocs<Elem<false, false, true> > ("throwing-mc+ma");
  all_allocs<Elem<false, true, false> > ("throwing-mc+swap");
  all_allocs<Elem<true, false, false> > ("throwing-ma+swap");
  all_allocs<Elem<false, false, false> > ("throwing-all");
  all_allocs<int> ("int");
  emit_coverage ();
  std::fprintf (stdout, "{\"type\":\"done\",\"chunks\":1,\"deaths\":0,\"rows\":%ld}\n", g_rows);
  return 0;
}
