// growth.cpp -- C14 long runs: geometric growth, O(log n) allocations, O(n) relocations.
#include <svmon/core.hpp>
#include <svmon/alloc.hpp>
#include <gch/small_vector.hpp>
#include <cmath>

using namespace svmon;

struct Cnt
{
  int v;
  static long relocations;
  Cnt (int x = 0) : v (x) { }
  Cnt (const Cnt& o) : v (o.v) { ++relocations; }
  Cnt (Cnt&& o) noexcept : v (o.v) { ++relocations; }
  Cnt& operator= (const Cnt& o) { v = o.v; return *this; }
  Cnt& operator= (Cnt&& o) noexcept { v = o.v; return *this; }
};
long Cnt::relocations = 0;

static long bound_allocs (double n, double start_cap)
{
  // ceil(log_1.5(n / max(start,1))) + 4
  double s = start_cap < 1 ? 1 : start_cap;
  if (n <= s) return 4;
  return static_cast<long> (std::ceil (std::log (n / s) / std::log (1.5))) + 4;
}

template <typename V>
static void check_realloc (const char *what, size_t oldcap, const V& v, size_t required, long& reallocs)
{
  const size_t cap = v.capacity ();
  if (cap == oldcap) return;
  ++reallocs;
  if (cap < required)
    violate ("C14", "growth.capacity-lt-required", "%s: capacity %zu < required %zu", what, cap, required);
  if (cap < oldcap + oldcap / 2 && cap != v.max_size ())
    violate ("C14", "growth.less-than-1.5x", "%s: reallocation grew capacity %zu -> %zu (< 1.5x, max_size %zu)", what, oldcap, cap, static_cast<size_t> (v.max_size ()));
}

template <typename T, unsigned N>
static void one_at_a_time (long n, const char *tname, int how)
{
  typedef LedgerAlloc<T, ACfg<false, false, false, false> > A;
  typedef gch::small_vector<T, N, A> V;
  G ().opkey = format ("one-at-a-time/%s", tname);
  G ().caseid = format ("push/%s/N%u/n%ld/how%d", tname, N, n, how);
  marker_desc (G ().caseid.c_str (), "growth");
  Ledger& L = LEDGER ();
  const long allocs0 = L.allocs;
  Cnt::relocations = 0;
  long reallocs = 0, int_relocs = 0;
  double min_ratio = 1e9;
  {
    V v;
    for (long i = 0; i < n; ++i)
    {
      const size_t oc = v.capacity (), os = v.size ();
      switch (how)
      {
        case 0: v.push_back (T (static_cast<int> (i))); break;
        case 1: v.emplace_back (static_cast<int> (i)); break;
        case 2: v.insert (v.end (), T (static_cast<int> (i))); break;
        default: v.emplace (v.end (), static_cast<int> (i)); break;
      }
      if (v.capacity () != oc)
      {
        int_relocs += static_cast<long> (os);
        if (oc) { double r = double (v.capacity ()) / double (oc); if (r < min_ratio) min_ratio = r; }
        check_realloc ("append one", oc, v, os + 1, reallocs);
      }
    }
    if (static_cast<long> (v.size ()) != n)
      violate ("C14", "growth.size", "size %zu after %ld appends", static_cast<size_t> (v.size ()), n);
  }
  const long allocs = L.allocs - allocs0;
  const long bound = bound_allocs (double (n), double (N));
  if (allocs > bound)
    violate ("C14", "growth.too-many-allocations", "%ld one-at-a-time appends performed %ld allocations (bound %ld)", n, allocs, bound);
  const long relocs = std::is_same<T, int>::value ? int_relocs : Cnt::relocations - n;   // minus the n constructions from temporaries for push_back(T&&)
  const long rbound = 3 * n + static_cast<long> (N);
  if (int_relocs > rbound)
    violate ("C14", "growth.too-many-relocations", "%ld appends relocated %ld elements (bound %ld)", n, int_relocs, rbound);
  if (L.live != 0)
    violate ("C14", "growth.leak", "%ld blocks alive after destruction", L.live);
  COV ().tuple (format ("one-at-a-time|%s|N%u|how%d|n%ld", tname, N, how, n));
  COV ().count ("reallocations-checked", reallocs);
  COV ().count ("allocations", allocs);
  COV ().count ("relocations", int_relocs);
  COV ().evaluations += n;
  COV ().sample (format ("%s N=%u n=%ld how=%d: %ld allocations (bound %ld), %ld relocations (bound %ld), min growth ratio %.3f, counted-type relocations %ld",
                         tname, N, n, how, allocs, bound, int_relocs, rbound, min_ratio, relocs));
}

// mixed growth: insert in the middle, append ranges, resize, reserve, assign
template <typename T, unsigned N>
static void mixed (long target, uint64_t seed, const char *tname)
{
  typedef LedgerAlloc<T, ACfg<false, false, false, false> > A;
  typedef gch::small_vector<T, N, A> V;
  G ().opkey = format ("mixed/%s", tname);
  G ().caseid = format ("mixed/%s/N%u/target%ld/seed%llu", tname, N, target, static_cast<unsigned long long> (seed));
  marker_desc (G ().caseid.c_str (), "growth");
  Rng rng (seed);
  long reallocs = 0;
  std::vector<T> src (4096, T (7));
  V v;
  long ops = 0;
  while (static_cast<long> (v.size ()) < target)
  {
    const size_t oc = v.capacity (), os = v.size ();
    size_t k = 1 + rng.below (rng.chance (1, 8) ? 4000 : 40);
    size_t required = os + k;
    const char *what = "?";
    switch (rng.below (8))
    {
      case 0: what = "insert(mid,n,x)"; v.insert (v.begin () + static_cast<std::ptrdiff_t> (os / 2), static_cast<typename V::size_type> (k), T (1)); break;
      case 1: what = "append(range)"; v.append (src.begin (), src.begin () + static_cast<std::ptrdiff_t> (k)); break;
      case 2: what = "insert(mid,range)"; v.insert (v.begin () + static_cast<std::ptrdiff_t> (os / 3), src.begin (), src.begin () + static_cast<std::ptrdiff_t> (k)); break;
      case 3: what = "resize(n)"; v.resize (static_cast<typename V::size_type> (os + k)); break;
      case 4: what = "resize(n,x)"; v.resize (static_cast<typename V::size_type> (os + k), T (2)); break;
      case 5: what = "reserve"; v.reserve (static_cast<typename V::size_type> (os + k)); required = os + k; break;
      case 6: what = "emplace(mid)"; v.emplace (v.begin () + static_cast<std::ptrdiff_t> (os / 2), 3); required = os + 1; break;
      default: what = "push_back"; v.push_back (T (4)); required = os + 1; break;
    }
    ++ops;
    if (v.capacity () != oc) check_realloc (what, oc, v, required, reallocs);
    COV ().tuple (format ("mixed|%s|N%u|%s|%s", tname, N, what, v.capacity () != oc ? "realloc" : "fit"));
  }
  // assign(count) / assign(range) from a fresh small state
  {
    V a; size_t oc = a.capacity ();
    a.assign (static_cast<typename V::size_type> (N + 3), T (1)); check_realloc ("assign(n,x)", oc, a, N + 3, reallocs);
    oc = a.capacity ();
    a.assign (src.begin (), src.begin () + 100); check_realloc ("assign(range)", oc, a, 100, reallocs);
  }
  COV ().count ("reallocations-checked", reallocs);
  COV ().evaluations += ops;
}

int main (int argc, char **argv)
{
  setvbuf (stdout, 0, _IOLBF, 0);
  G ().engine = "growth";
  G ().monitors = ~0ull;
  install_death_handlers ();
  const long n = static_cast<long> (arg_u64 (argc, argv, "--n", 1000000));
  const uint64_t seed = arg_u64 (argc, argv, "--seed", 1);
  const char *part = arg_str (argc, argv, "--part", "all");
  std::fprintf (stdout, "{\"type\":\"config\",\"engine\":\"growth\",\"n\":%ld}\n", n);
  const bool all = ! std::strcmp (part, "all");
  if (all || ! std::strcmp (part, "int"))
  {
    one_at_a_time<int, 0> (n, "int", 0); one_at_a_time<int, 1> (n, "int", 1); one_at_a_time<int, 8> (n, "int", 2); one_at_a_time<int, 40> (n, "int", 3);
    one_at_a_time<int, 0> (n / 3 + 1, "int", 3); one_at_a_time<int, 40> (n / 7 + 5, "int", 0);
  }
  if (all || ! std::strcmp (part, "cnt"))
  {
    one_at_a_time<Cnt, 0> (n, "Cnt", 1); one_at_a_time<Cnt, 1> (n, "Cnt", 0); one_at_a_time<Cnt, 8> (n, "Cnt", 3); one_at_a_time<Cnt, 40> (n, "Cnt", 2);
  }
  if (all || ! std::strcmp (part, "mixed"))
  {
    for (uint64_t s = 0; s < 4; ++s)
    {
      mixed<int, 0> (n, mix64 (seed, s), "int"); mixed<int, 8> (n, mix64 (seed, 10 + s), "int");
      mixed<Cnt, 1> (n / 2, mix64 (seed, 20 + s), "Cnt"); mixed<Cnt, 40> (n / 2, mix64 (seed, 30 + s), "Cnt");
    }
  }
  emit_coverage ();
  std::fprintf (stdout, "{\"type\":\"done\",\"chunks\":1,\"deaths\":0}\n");
  return 0;
}
