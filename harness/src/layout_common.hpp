// layout_common.hpp -- C19: shared part of the generated layout probes.
#ifndef LAYOUT_COMMON_HPP
#define LAYOUT_COMMON_HPP
#include <gch/small_vector.hpp>
#include <cstdio>
#include <cstdint>
#include <cstdlib>
#include <cstring>
#include <memory>
#include <new>
#include <type_traits>

template <std::size_t S, std::size_t Al>
struct alignas (Al) E
{
  unsigned char b[S];
};

template <typename N> struct StateHolder { unsigned char st[N::value]; };
template <> struct StateHolder<std::integral_constant<std::size_t, 0> > { };

// Allocator with `State` bytes of state and size_type `SizeT` (all template arguments are types so
// that std::allocator_traits can rebind it).
template <typename T, typename State, typename SizeT>
struct SA : StateHolder<State>
{
  typedef T value_type;
  typedef SizeT size_type;
  typedef std::ptrdiff_t difference_type;
  SA () noexcept { }
  template <typename U> SA (const SA<U, State, SizeT>&) noexcept { }
  T *allocate (size_type n) { return static_cast<T *> (::operator new (static_cast<std::size_t> (n) * sizeof (T), std::align_val_t (alignof (T)))); }
  void deallocate (T *p, size_type) noexcept { ::operator delete (p, std::align_val_t (alignof (T))); }
  template <typename U> bool operator== (const SA<U, State, SizeT>&) const noexcept { return true; }
  template <typename U> bool operator!= (const SA<U, State, SizeT>&) const noexcept { return false; }
};

template <std::size_t S, std::size_t Al, std::size_t State, typename SizeT>
struct Probe
{
  typedef E<S, Al> T;
  typedef SA<T, std::integral_constant<std::size_t, State>, SizeT> A;
  static constexpr unsigned D = gch::default_buffer_size<A>::value;
  typedef gch::small_vector<T, 0, A> V0;
  typedef gch::small_vector<T, D, A> VD;
  typedef gch::small_vector<T, D + 1, A> VD1;

  static void print (const char *st_name)
  {
    static_assert (sizeof (T) == S && alignof (T) == Al, "element archetype has the requested size and alignment");
    std::printf ("{\"type\":\"layout\",\"S\":%zu,\"Al\":%zu,\"state\":%zu,\"st\":\"%s\",\"stsize\":%zu,\"D\":%u,\"s0\":%zu,\"sD\":%zu,\"sD1\":%zu,"
                 "\"a0\":%zu,\"aD\":%zu,\"icD\":%zu,\"ic0\":%zu,\"sizeofA\":%zu,\"emptyA\":%d}\n",
                 S, Al, State, st_name, sizeof (SizeT), D, sizeof (V0), sizeof (VD), sizeof (VD1), alignof (V0), alignof (VD),
                 static_cast<std::size_t> (VD::inline_capacity ()), static_cast<std::size_t> (V0::inline_capacity ()), sizeof (A),
                 int (std::is_empty<A>::value));
  }

  // run-time: the inline buffer is suitably aligned wherever the object itself is suitably placed
  static void runtime (const char *st_name)
  {
    const std::size_t al = alignof (VD);
    unsigned char *raw = static_cast<unsigned char *> (std::malloc (sizeof (VD) + 8 * al + 64));
    int bad = 0, tried = 0;
    for (std::size_t k = 0; k < 4; ++k)
    {
      // addresses that satisfy alignof(VD) but are otherwise as "odd" as possible
      std::uintptr_t base = reinterpret_cast<std::uintptr_t> (raw) + 1;
      base = (base + al - 1) / al * al + k * al;
      VD *v = ::new (reinterpret_cast<void *> (base)) VD ();
      v->emplace_back ();
      if (D > 1) v->emplace_back ();
      ++tried;
      if (! v->inlined () || reinterpret_cast<std::uintptr_t> (v->data ()) % alignof (T) != 0
          || reinterpret_cast<unsigned char *> (v->data ()) < reinterpret_cast<unsigned char *> (v)
          || reinterpret_cast<unsigned char *> (v->data () + D) > reinterpret_cast<unsigned char *> (v) + sizeof (VD))
        ++bad;
      std::memset (v->data (), 0x5c, sizeof (T));   // element access through the aligned pointer (UBSan alignment)
      v->~VD ();
    }
    { VD onstack; onstack.emplace_back (); ++tried;
      if (reinterpret_cast<std::uintptr_t> (onstack.data ()) % alignof (T) != 0 || ! onstack.inlined ()) ++bad; }
    std::free (raw);
    std::printf ("{\"type\":\"layout-rt\",\"S\":%zu,\"Al\":%zu,\"state\":%zu,\"st\":\"%s\",\"tried\":%d,\"bad\":%d}\n", S, Al, State, st_name, tried, bad);
  }
};

#endif
