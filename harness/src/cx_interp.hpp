// cx_interp.hpp -- C08: constexpr interpreter over small_vector programs.  The same function is
// evaluated by the compiler's constant evaluator (a UB-checking interpreter of the abstract machine)
// and at run time; the per-step observations must agree.
#ifndef CX_INTERP_HPP
#define CX_INTERP_HPP

#include <gch/small_vector.hpp>
#include <array>
#include <cstdio>
#include <cstddef>
#include <utility>

struct Lit   // literal, non-trivial element type
{
  int v;
  constexpr Lit (int x = 0) : v (x) { }
  constexpr Lit (const Lit& o) : v (o.v) { }
  constexpr Lit& operator= (const Lit& o) { v = o.v; return *this; }
  constexpr ~Lit () { }
  friend constexpr bool operator== (const Lit& a, const Lit& b) { return a.v == b.v; }
  friend constexpr bool operator<  (const Lit& a, const Lit& b) { return a.v < b.v; }
};
constexpr int val (int x) { return x; }
constexpr int val (const Lit& x) { return x.v; }

struct Step { int op, pos, cnt, val; };
template <std::size_t L> using Prog = std::array<Step, L>;

static constexpr int OBS_PER_STEP = 8;
template <std::size_t L> using Obs = std::array<long, L * OBS_PER_STEP>;

enum CxOp
{
  CX_PUSH_BACK = 0, CX_EMPLACE_BACK, CX_INSERT, CX_INSERT_N, CX_INSERT_RANGE, CX_ERASE, CX_ERASE_RANGE, CX_POP_BACK, CX_CLEAR,
  CX_RESIZE, CX_RESIZE_VAL, CX_RESERVE, CX_SHRINK, CX_ASSIGN_N, CX_ASSIGN_RANGE, CX_APPEND_RANGE, CX_COPY_ASSIGN, CX_MOVE_ASSIGN,
  CX_SWAP, CX_COPY_CTOR, CX_MOVE_CTOR, CX_COMPARE, CX_NM_ERASE, CX_NM_ERASE_IF, CX_EMPLACE, CX_INSERT_ALIAS, CX_APPEND_SV, CX_CTOR_N,
  CX_INSERT_N_ALIAS, CX_PUSH_ALIAS, CX_RESIZE_ALIAS, CX_EMPLACE_ALIAS, CX_EMPLACE_BACK_ALIAS, CX__COUNT
};

template <typename V>
constexpr long checksum (const V& v)
{
  unsigned long h = 17;   // unsigned: the harness itself must be free of UB (the evaluator rejects signed overflow)
  for (const auto& e : v) h = (h * 31 + static_cast<unsigned long> (static_cast<unsigned> (val (e)))) % 1000000007ul;
  return static_cast<long> (h);
}

template <typename V>
constexpr int clamp_pos (const V& v, int pos)
{
  const int n = static_cast<int> (v.size ());
  return n == 0 ? 0 : pos % (n + 1);
}

// One operation on `a` (with `b` as the second operand).  Returns the "returned value" observation.
// growth is set when the operation may have grown `a` (capacity is compared in that case).
template <typename A, typename B>
constexpr long apply (A& a, B& b, const Step& s, bool& a_moved, bool& b_moved, bool& growth)
{
  using T = typename A::value_type;
  using S = typename A::size_type;
  const int n = static_cast<int> (a.size ());
  const int pos = clamp_pos (a, s.pos);
  const int cnt = (n + s.cnt > 48) ? 0 : s.cnt;
  const std::array<int, 8> src { s.val, s.val + 1, s.val + 2, s.val + 3, s.val + 4, s.val + 5, s.val + 6, s.val + 7 };
  long ret = -1;
  growth = false;
  switch (s.op)
  {
    case CX_PUSH_BACK: a.push_back (T (s.val)); growth = true; break;
    case CX_EMPLACE_BACK: { T& r = a.emplace_back (s.val); ret = val (r); growth = true; break; }
    case CX_INSERT: { auto it = a.insert (a.begin () + pos, T (s.val)); ret = it - a.begin (); growth = true; break; }
    case CX_EMPLACE: { auto it = a.emplace (a.begin () + pos, s.val); ret = it - a.begin (); growth = true; break; }
    case CX_INSERT_N: { auto it = a.insert (a.begin () + pos, static_cast<S> (cnt), T (s.val)); ret = it - a.begin (); growth = true; break; }
    case CX_INSERT_RANGE: { auto it = a.insert (a.begin () + pos, src.begin (), src.begin () + cnt); ret = it - a.begin (); growth = true; break; }
    case CX_INSERT_ALIAS: if (n) { auto it = a.insert (a.begin () + pos, a[static_cast<S> (s.val % n)]); ret = it - a.begin (); growth = true; } break;
    case CX_INSERT_N_ALIAS: if (n) { auto it = a.insert (a.begin () + pos, static_cast<S> (cnt), a[static_cast<S> (s.val % n)]); ret = it - a.begin (); growth = true; } break;
    case CX_EMPLACE_ALIAS: if (n) { auto it = a.emplace (a.begin () + pos, a[static_cast<S> (s.val % n)]); ret = it - a.begin (); growth = true; } break;
    case CX_PUSH_ALIAS: if (n) { a.push_back (a[static_cast<S> (s.val % n)]); growth = true; } break;
    case CX_EMPLACE_BACK_ALIAS: if (n) { T& r = a.emplace_back (a[static_cast<S> (s.val % n)]); ret = val (r); growth = true; } break;
    case CX_RESIZE_ALIAS: if (n) { a.resize (static_cast<S> (s.cnt * 2), a[static_cast<S> (s.val % n)]); growth = true; } break;
    case CX_ERASE: if (n) { auto it = a.erase (a.begin () + (pos < n ? pos : n - 1)); ret = it - a.begin (); } break;
    case CX_ERASE_RANGE: { int e = pos + (n - pos ? s.cnt % (n - pos + 1) : 0); auto it = a.erase (a.begin () + pos, a.begin () + e); ret = it - a.begin (); break; }
    case CX_POP_BACK: if (n) a.pop_back (); break;
    case CX_CLEAR: a.clear (); break;
    case CX_RESIZE: a.resize (static_cast<S> (s.cnt * 2)); growth = true; break;
    case CX_RESIZE_VAL: a.resize (static_cast<S> (s.cnt * 2), T (s.val)); growth = true; break;
    case CX_RESERVE: a.reserve (static_cast<S> (s.cnt * 3)); growth = true; break;
    case CX_SHRINK: a.shrink_to_fit (); break;
    case CX_ASSIGN_N: a.assign (static_cast<S> (s.cnt), T (s.val)); growth = true; break;
    case CX_ASSIGN_RANGE: a.assign (src.begin (), src.begin () + s.cnt); growth = true; break;
    case CX_APPEND_RANGE: a.append (src.begin (), src.begin () + cnt); growth = true; break;
    case CX_APPEND_SV: if (static_cast<int> (b.size ()) + n <= 48) { a.append (b); growth = true; } break;
    case CX_COPY_ASSIGN: a.assign (b); break;
    case CX_MOVE_ASSIGN: a.assign (std::move (b)); a_moved = b_moved = true; b.clear (); break;
    case CX_SWAP: { A t (b); a.swap (t); a_moved = true; break; }
    case CX_COPY_CTOR: { A t (b); ret = static_cast<long> (t.size ()) * 1000 + checksum (t) % 1000; break; }
    case CX_MOVE_CTOR: { A t (std::move (b)); ret = static_cast<long> (t.size ()) * 1000 + checksum (t) % 1000; b_moved = true; b.clear (); break; }
    case CX_COMPARE: ret = (a == b) * 1 + (a != b) * 2 + (a < b) * 4 + (a <= b) * 8 + (a > b) * 16 + (a >= b) * 32; break;
    case CX_NM_ERASE: ret = static_cast<long> (erase (a, T (s.val % 7))); break;
    case CX_NM_ERASE_IF: { const int m = 2 + s.val % 3; ret = static_cast<long> (erase_if (a, [m] (const T& e) { return val (e) % m == 0; })); break; }
    case CX_CTOR_N: { A t (static_cast<S> (s.cnt), T (s.val)); a.assign (t); break; }
    default: break;
  }
  return ret;
}

template <typename T, unsigned N, unsigned M, std::size_t L>
constexpr Obs<L> run (const Prog<L>& p)
{
  Obs<L> o { };
  gch::small_vector<T, N> a;
  gch::small_vector<T, M> b;
  bool a_moved = false, b_moved = false;
  for (std::size_t i = 0; i < L; ++i)
  {
    const Step& s = p[i];
    bool growth = false;
    long ret = 0;
    const bool on_a = (s.op & 64) == 0;
    Step t = s; t.op = s.op & 63;
    if (on_a) ret = apply (a, b, t, a_moved, b_moved, growth);
    else ret = apply (b, a, t, b_moved, a_moved, growth);
    long *w = &o[i * OBS_PER_STEP];
    w[0] = ret;
    w[1] = static_cast<long> (a.size ());
    w[2] = static_cast<long> (b.size ());
    w[3] = checksum (a);
    w[4] = checksum (b);
    // capacity is comparable only after growth operations and only while the container has not taken part in a move / swap
    w[5] = (growth && on_a && ! a_moved) ? static_cast<long> (a.capacity ()) : -1;
    w[6] = (growth && ! on_a && ! b_moved) ? static_cast<long> (b.capacity ()) : -1;
    w[7] = a.empty () ? -1 : static_cast<long> (val (a.front ()) * 1000 + val (a.back ()));
  }
  return o;
}

// Converting scenarios: elements built / assigned from values and ranges of other integral types (the bulk-copy
// shortcuts exist only at run time; constant evaluation takes the generic branches).  Observations are the element
// values converted to long.
static constexpr int CONV_OBS = 64;
template <unsigned N>
constexpr std::array<long, CONV_OBS> conv_scenario (int seed)
{
  std::array<long, CONV_OBS> o { };
  std::size_t k = 0;
  const std::array<unsigned char, 6> uc { static_cast<unsigned char> ((seed & 0x7c) | 2), 7, 0, 1, 0xfe, static_cast<unsigned char> (seed & 0xff) };
  const std::array<signed char, 4> sc { static_cast<signed char> (-(seed & 0x3f) - 2), 0, 5, -1 };
  const std::array<unsigned, 5> us { 0u, 1u, 0x80000000u + static_cast<unsigned> (seed), 0xffffffffu, 77u };
  const std::array<int, 4> is { -1, seed, -2147483647 - 1, 3 };
  const std::array<long long, 3> ls { 1ll << 33 | seed, -5, 70000 };
  {
    gch::small_vector<bool, N> b (uc.begin (), uc.end ());
    gch::small_vector<unsigned char, 3> g (uc.begin (), uc.end ());
    for (bool x : b) o[k++] = static_cast<long> (x);
    b.assign (g.begin (), g.end ());
    b.insert (b.begin () + 1, sc.begin (), sc.end ());
    b.emplace_back (uc[4]);
    b.emplace (b.begin (), sc[0]);
    b.append (g.cbegin (), g.cend ());
    o[k++] = static_cast<long> (b.size ());
    long w = 0;
    for (bool x : b) w = w * 3 + static_cast<long> (x);
    o[k++] = w;
  }
  {
    gch::small_vector<int, N> v (us.begin (), us.end ());
    v.insert (v.begin () + 2, ls.begin (), ls.end ());
    v.append (sc.begin (), sc.end ());
    for (int x : v) if (k < CONV_OBS - 12) o[k++] = x;
    gch::small_vector<unsigned, N> u (is.begin (), is.end ());
    u.assign (sc.begin (), sc.end ());
    u.insert (u.end (), is.begin (), is.end ());
    for (unsigned x : u) if (k < CONV_OBS - 2) o[k++] = static_cast<long> (x);
    gch::small_vector<short, N> h (is.begin (), is.end ());
    h.append (us.begin (), us.end ());
    long w = 0;
    for (short x : h) w = (w * 31 + x) % 1000003;
    o[k++] = w;
  }
  return o;
}

[[gnu::noinline]] inline int launder_int (int x) { volatile int v = x; return v; }

template <unsigned N>
inline int check_conv (int id, int seed, const std::array<long, CONV_OBS>& ct)
{
  const std::array<long, CONV_OBS> rt = conv_scenario<N> (launder_int (seed));
  for (std::size_t i = 0; i < CONV_OBS; ++i)
    if (rt[i] != ct[i])
    {
      std::printf ("{\"type\":\"violation\",\"prop\":\"C08\",\"monitor\":\"cx.conversion-compile-time-vs-run-time\",\"key\":\"C08|cx.conversion-compile-time-vs-run-time|N%u\",\"case\":\"conv:%d\","
                   "\"msg\":\"converting scenario %d (N=%u, seed %d): observation %zu is %ld at compile time but %ld at run time\"}\n", N, id, id, N, seed, i, ct[i], rt[i]);
      return 1;
    }
  return 0;
}

// run-time side: launder the program so that nothing is a manifestly constant-evaluated context
template <std::size_t L>
[[gnu::noinline]] inline Prog<L> launder_prog (const Prog<L>& p)
{
  Prog<L> r { };
  const volatile Step *vp = p.data ();
  for (std::size_t i = 0; i < L; ++i) { r[i].op = vp[i].op; r[i].pos = vp[i].pos; r[i].cnt = vp[i].cnt; r[i].val = vp[i].val; }
  return r;
}

template <typename T, unsigned N, unsigned M, std::size_t L>
inline int check_program (int id, const char *cfg, const Prog<L>& p, const Obs<L>& ct)
{
  const Prog<L> lp = launder_prog (p);
  const Obs<L> rt = run<T, N, M> (lp);
  for (std::size_t i = 0; i < L * OBS_PER_STEP; ++i)
    if (rt[i] != ct[i])
    {
      const std::size_t step = i / OBS_PER_STEP;
      std::printf ("{\"type\":\"violation\",\"prop\":\"C08\",\"monitor\":\"cx.compile-time-vs-run-time\",\"key\":\"C08|cx.compile-time-vs-run-time|op%d|obs%zu\",\"case\":\"prog:%d\","
                   "\"msg\":\"program %d (%s) step %zu (op %d pos %d cnt %d val %d): observation %zu is %ld at compile time but %ld at run time\"}\n",
                   p[step].op & 63, i % OBS_PER_STEP, id, id, cfg, step, p[step].op, p[step].pos, p[step].cnt, p[step].val, i % OBS_PER_STEP, ct[i], rt[i]);
      return 1;
    }
  return 0;
}

#endif
