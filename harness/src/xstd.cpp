// xstd.cpp -- C17: portable (C++11-subset) corpus.  The same seed-derived histories are executed
// under every -std / compiler / GCH_DISABLE_CONCEPTS build; each history prints one digest over its
// full observation trace (contents, sizes, capacities, returned offsets, exception kinds).  The
// python side compares digests across builds.  No constexpr, <=>, CTAD or noexcept observations.
#include <svmon/core.hpp>
#include <svmon/registry.hpp>
#include <svmon/alloc.hpp>
#include <gch/small_vector.hpp>
#include <vector>
#include <list>
#include <iterator>
#include <algorithm>

using namespace svmon;

struct Triv { int v; };
inline Triv mk (int x, Triv *) { Triv t; t.v = x; return t; }
inline int val (const Triv& t) { return t.v; }
inline bool operator== (const Triv& a, const Triv& b) { return a.v == b.v; }
inline bool operator<  (const Triv& a, const Triv& b) { return a.v < b.v; }

// same value type with user-provided copy operations: generic (non-memcpy) paths
struct NonTriv
{
  int v;
  NonTriv () : v (0) { }
  NonTriv (const NonTriv& o) : v (o.v) { }
  NonTriv& operator= (const NonTriv& o) { v = o.v; return *this; }
  ~NonTriv () { v = -12345; }
};
inline NonTriv mk (int x, NonTriv *) { NonTriv t; t.v = x; return t; }
inline int val (const NonTriv& t) { return t.v; }
inline bool operator== (const NonTriv& a, const NonTriv& b) { return a.v == b.v; }
inline bool operator<  (const NonTriv& a, const NonTriv& b) { return a.v < b.v; }

inline int mk (int x, int *) { return x; }
inline int val (int x) { return x; }
inline TNx mk (int x, TNx *) { return TNx (x); }
inline int val (const TNx& t) { return t.value; }

enum Color { RED = 1, GREEN = 7, BLUE = 300 };

struct Digest
{
  uint64_t h;
  bool trace;
  Digest () : h (1469598103934665603ull), trace (false) { }
  void add (long x)
  {
    uint64_t u = static_cast<uint64_t> (x);
    for (int i = 0; i < 8; ++i) { h ^= (u >> (8 * i)) & 0xff; h *= 1099511628211ull; }
    if (trace) std::printf (" %ld", x);
  }
  void mark (const char *what) { if (trace) std::printf ("\n  %s:", what); }
};

template <typename V>
static void observe (Digest& d, const V& v)
{
  d.add (static_cast<long> (v.size ()));
  d.add (static_cast<long> (v.capacity ()));
  d.add (v.inlined () ? 1 : 0);
  for (typename V::const_iterator it = v.begin (); it != v.end (); ++it) d.add (val (*it));
}

template <typename F>
static int guarded_call (F f, long& ret)
{
  try { ret = f (); return 0; }
  catch (const std::length_error&) { return 1; }
  catch (const std::out_of_range&) { return 2; }
  catch (const std::bad_alloc&) { return 3; }
  catch (...) { return 4; }
}

template <typename T, typename A, unsigned NA, unsigned NB>
struct Corpus
{
  typedef gch::small_vector<T, NA, A> VA;
  typedef gch::small_vector<T, NB, A> VB;
  typedef typename VA::size_type S;

  // one operation on `v` (and possibly `w`, of the other inline capacity)
  template <typename V, typename W>
  struct Step
  {
    V& v; W& w; Rng& rng; int& next; int op; int soft_max;
    Step (V& v_, W& w_, Rng& r, int& n, int o, int sm) : v (v_), w (w_), rng (r), next (n), op (o), soft_max (sm) { }
    long operator() ()
    {
      typedef typename V::size_type VS;
      const int size = static_cast<int> (v.size ());
      const int pos = size ? static_cast<int> (rng.below (static_cast<uint32_t> (size + 1))) : 0;
      int cnt = static_cast<int> (rng.below (7));
      if (size + cnt > soft_max) cnt = 0;
      T *null = 0;
      std::vector<T> src; for (int i = 0; i < cnt; ++i) src.push_back (mk (next + i, null));
      std::list<T> lsrc (src.begin (), src.end ());
      gch::small_vector<T, 3, typename V::allocator_type> gsrc (src.begin (), src.end ());
      long ret = -1;
      switch (op)
      {
        case 0: v.push_back (mk (next++, null)); break;
        case 1: { T x = mk (next++, null); v.push_back (x); break; }
        case 2: v.emplace_back (mk (next++, null)); break;
        case 3: { typename V::iterator it_ = v.insert (v.begin () + pos, mk (next++, null)); ret = it_ - v.begin (); } break;
        case 4: { T x = mk (next++, null); { typename V::iterator it_ = v.insert (v.begin () + pos, static_cast<VS> (cnt), x); ret = it_ - v.begin (); } break; }
        case 5: { typename V::iterator it_ = v.insert (v.begin () + pos, src.begin (), src.end ()); ret = it_ - v.begin (); } break;
        case 6: { typename V::iterator it_ = v.insert (v.begin () + pos, lsrc.begin (), lsrc.end ()); ret = it_ - v.begin (); } break;
        case 7: { typename V::iterator it_ = v.insert (v.begin () + pos, gsrc.begin (), gsrc.end ()); ret = it_ - v.begin (); } break;
        case 8: { const T *p = src.empty () ? 0 : &src[0]; { typename V::iterator it_ = v.insert (v.begin () + pos, p, p + src.size ()); ret = it_ - v.begin (); } break; }
        case 9: if (size) { typename V::iterator it_ = v.erase (v.begin () + (pos < size ? pos : size - 1)); ret = it_ - v.begin (); } break;
        case 10: { int a = pos, b = a + static_cast<int> (rng.below (static_cast<uint32_t> (size - a + 1))); { typename V::iterator it_ = v.erase (v.begin () + a, v.begin () + b); ret = it_ - v.begin (); } break; }
        case 11: if (size) v.pop_back (); break;
        case 12: v.resize (static_cast<VS> (rng.below (static_cast<uint32_t> (soft_max / 2)))); break;
        case 13: { T x = mk (next++, null); v.resize (static_cast<VS> (rng.below (static_cast<uint32_t> (soft_max / 2))), x); break; }
        case 14: v.reserve (static_cast<VS> (rng.below (static_cast<uint32_t> (soft_max)))); break;
        case 15: v.shrink_to_fit (); break;
        case 16: v.clear (); break;
        case 17: { T x = mk (next++, null); v.assign (static_cast<VS> (cnt), x); break; }
        case 18: v.assign (src.begin (), src.end ()); break;
        case 19: v.assign (lsrc.begin (), lsrc.end ()); break;
        case 20: v.assign (gsrc.begin (), gsrc.end ()); break;
        case 21: v.append (src.begin (), src.end ()); break;
        case 22: v.append (gsrc); break;
        case 23: if (static_cast<int> (w.size ()) + size <= soft_max) v.append (w); break;
        case 24: v.assign (w); break;
        case 25: v.assign (std::move (w)); break;
        case 26: { V tmp (w); v.swap (tmp); break; }
        case 27: { V tmp (std::move (w)); v = std::move (tmp); break; }
        case 28: { V tmp (src.begin (), src.end ()); swap (v, tmp); break; }
        case 29: ret = static_cast<long> (val (v.at (static_cast<VS> (size ? size - 1 + static_cast<int> (rng.below (2)) : 0)))); break;   // may throw out_of_range
        case 30: ret = (v == w) * 1 + (v != w) * 2 + (v < w) * 4 + (v <= w) * 8 + (v > w) * 16 + (v >= w) * 32; break;
        case 31: ret = static_cast<long> (erase (v, mk (static_cast<int> (rng.below (6)), null))); break;
        case 32: { V tmp (static_cast<VS> (cnt)); v = tmp; break; }
        case 33: { T x = mk (next++, null); V tmp (static_cast<VS> (cnt), x); v = std::move (tmp); break; }
        case 34: { typename V::iterator it_ = v.emplace (v.begin () + pos, mk (next++, null)); ret = it_ - v.begin (); } break;
        case 35: if (size) { { typename V::iterator it_ = v.insert (v.begin () + pos, v[static_cast<VS> (rng.below (static_cast<uint32_t> (size)))]); ret = it_ - v.begin (); } } break;
        case 36: if (size) v.push_back (v[static_cast<VS> (rng.below (static_cast<uint32_t> (size)))]); break;
        default: break;
      }
      next += cnt + 1;
      return ret;
    }
  };
  static const int NOPS = 37;

  static uint64_t history (uint64_t seed, int len, int soft_max, bool trace)
  {
    Rng rng (seed);
    Digest d; d.trace = trace;
    int next = 1;
    {
      VA a; VB b;
      for (int i = 0; i < len; ++i)
      {
        int op = static_cast<int> (rng.below (NOPS));
        bool on_a = rng.chance (1, 2);
        long ret = -1; int out;
        if (trace) std::printf ("\n op %d (%s):", op, on_a ? "a" : "b");
        if (on_a) { Step<VA, VB> s (a, b, rng, next, op, soft_max); out = guarded_call (s, ret); }
        else { Step<VB, VA> s (b, a, rng, next, op, soft_max); out = guarded_call (s, ret); }
        d.add (op); d.add (out); d.add (ret);
        d.mark ("a"); observe (d, a);
        d.mark ("b"); observe (d, b);
      }
    }
    d.add (LEDGER ().live);   // leaks would differ
    d.add (REG ().live);
    return d.h;
  }
};

// converting sources (other integral / enum / pointer types) through pointers, std::vector and small_vector iterators.
// Each feature can be compiled out (-DXSTD_NO_F<k>) so that the python side can (a) probe which build accepts which
// feature and (b) still compare the behaviour of everything all builds accept.
//   F1 same-width integral through raw pointers / std::vector iterators   F2 ... through small_vector iterators
//   F3 different-width integral / enum sources                            F4 pointer conversions through raw pointers / std::vector iterators
//   F5 pointer conversions through small_vector iterators
static uint64_t converting (uint64_t seed, bool trace)
{
  Rng rng (seed);
  Digest d; d.trace = trace;
  const int n = 1 + static_cast<int> (rng.below (9));
  std::vector<unsigned> us; std::vector<short> ss; std::vector<unsigned char> cs; std::vector<long long> ls; std::vector<Color> es;
  for (int i = 0; i < n; ++i)
  {
    us.push_back (static_cast<unsigned> (rng.next ())); ss.push_back (static_cast<short> (rng.next ())); cs.push_back (static_cast<unsigned char> (rng.next ()));
    ls.push_back (static_cast<long long> (rng.next () % 100000)); es.push_back (i % 3 == 0 ? RED : i % 3 == 1 ? GREEN : BLUE);
  }
  gch::small_vector<unsigned, 2> gus (us.begin (), us.end ());
  gch::small_vector<short, 4> gss (ss.begin (), ss.end ());
  {
    gch::small_vector<int, 3> v;
    v.push_back (1); v.push_back (2);
#ifndef XSTD_NO_F1
    d.mark ("from unsigned*"); v.assign (&us[0], &us[0] + n); observe (d, v);
    d.mark ("from vector<unsigned>::iterator"); v.insert (v.begin () + 1, us.begin (), us.end ()); observe (d, v);
    { gch::small_vector<int, 2> x (&us[0], &us[0] + n); d.mark ("ctor from unsigned*"); observe (d, x); }
    { gch::small_vector<int, 2> x; x.append (us.begin (), us.end ()); d.mark ("append vector<unsigned>"); observe (d, x); }
#endif
#ifndef XSTD_NO_F2
    d.mark ("from small_vector<unsigned>::iterator"); v.append (gus.begin (), gus.end ()); observe (d, v);
    { gch::small_vector<int, 2> w (gus.begin (), gus.end ()); d.mark ("ctor from small_vector<unsigned>::iterator"); observe (d, w); }
    { gch::small_vector<int, 2> w; w.assign (gus.cbegin (), gus.cend ()); w.insert (w.begin (), gus.begin (), gus.end ()); d.mark ("assign/insert small_vector<unsigned>"); observe (d, w); }
#endif
#ifndef XSTD_NO_F3
    d.mark ("from short*"); v.insert (v.begin (), &ss[0], &ss[0] + n); observe (d, v);
    d.mark ("from small_vector<short>::const_iterator"); v.assign (gss.cbegin (), gss.cend ()); observe (d, v);
    d.mark ("from unsigned char"); v.append (cs.begin (), cs.end ()); observe (d, v);
    d.mark ("from long long"); v.insert (v.end (), ls.begin (), ls.end ()); observe (d, v);
    d.mark ("from enum"); v.insert (v.begin (), es.begin (), es.end ()); observe (d, v);
    {
      gch::small_vector<unsigned, 2> u (ss.begin (), ss.end ());
      d.mark ("unsigned from short"); for (size_t i = 0; i < u.size (); ++i) d.add (static_cast<long> (u[static_cast<unsigned> (i)]));
      u.assign (&ls[0], &ls[0] + n);
      d.mark ("unsigned from long long"); for (size_t i = 0; i < u.size (); ++i) d.add (static_cast<long> (u[static_cast<unsigned> (i)]));
    }
#endif
  }
  {
    // pointers: int* -> const int*, const void*
    std::vector<int> store (static_cast<size_t> (n), 5);
    std::vector<int *> ps; for (int i = 0; i < n; ++i) ps.push_back (&store[static_cast<size_t> (i)]);
    (void) ps;
#ifndef XSTD_NO_F4
    gch::small_vector<const int *, 2> cp (ps.begin (), ps.end ());
    gch::small_vector<const void *, 2> vp (&ps[0], &ps[0] + n);
    vp.insert (vp.begin (), ps.begin (), ps.end ());
    d.mark ("pointer offsets");
    for (size_t i = 0; i < cp.size (); ++i) d.add (static_cast<long> (cp[static_cast<unsigned> (i)] - &store[0]));
    for (size_t i = 0; i < vp.size (); ++i) d.add (static_cast<long> (static_cast<const int *> (vp[static_cast<unsigned> (i)]) - &store[0]));
#endif
#ifndef XSTD_NO_F5
    {
      gch::small_vector<int *, 3> gp (ps.begin (), ps.end ());
      gch::small_vector<const int *, 2> cp2 (gp.begin (), gp.end ());
      gch::small_vector<const void *, 2> vp2; vp2.assign (cp2.begin (), cp2.end ()); vp2.insert (vp2.begin (), gp.cbegin (), gp.cend ());
      d.mark ("pointer offsets via small_vector iterators");
      for (size_t i = 0; i < cp2.size (); ++i) d.add (static_cast<long> (cp2[static_cast<unsigned> (i)] - &store[0]));
      for (size_t i = 0; i < vp2.size (); ++i) d.add (static_cast<long> (static_cast<const int *> (vp2[static_cast<unsigned> (i)]) - &store[0]));
    }
#endif
  }
  return d.h;
}

// F6: move-only element type whose move operations are potentially throwing, with std::allocator
// (std::vector accepts every call below under every standard)
#ifndef XSTD_NO_F6
struct MoveOnlyT
{
  int v;
  MoveOnlyT () : v (0) { }
  MoveOnlyT (int x) : v (x) { }
  MoveOnlyT (MoveOnlyT&& o) noexcept (false) : v (o.v) { o.v = -1; }
  MoveOnlyT& operator= (MoveOnlyT&& o) noexcept (false) { v = o.v; o.v = -1; return *this; }
  MoveOnlyT (const MoveOnlyT&) = delete;
  MoveOnlyT& operator= (const MoveOnlyT&) = delete;
};
inline int val (const MoveOnlyT& t) { return t.v; }

static uint64_t moveonly_family (uint64_t seed, bool trace)
{
  Rng rng (seed);
  Digest d; d.trace = trace;
  gch::small_vector<MoveOnlyT, 2> a;
  gch::small_vector<MoveOnlyT, 5> b;
  int next = 1;
  for (int i = 0; i < 40; ++i)
  {
    const int op = static_cast<int> (rng.below (12));
    const unsigned n = static_cast<unsigned> (a.size ());
    const unsigned pos = n ? static_cast<unsigned> (rng.below (n + 1)) : 0;
    switch (op)
    {
      case 0: a.emplace_back (next++); break;
      case 1: a.push_back (MoveOnlyT (next++)); break;
      case 2: a.reserve (static_cast<unsigned> (rng.below (24))); break;
      case 3: a.shrink_to_fit (); break;
      case 4: { gch::small_vector<MoveOnlyT, 2>::iterator it = a.insert (a.begin () + pos, MoveOnlyT (next++)); d.add (it - a.begin ()); break; }
      case 5: { gch::small_vector<MoveOnlyT, 2>::iterator it = a.emplace (a.begin () + pos, next++); d.add (it - a.begin ()); break; }
      case 6: if (n) a.erase (a.begin () + (pos < n ? pos : n - 1)); break;
      case 7: a.resize (static_cast<unsigned> (rng.below (9))); break;
      case 8: b.assign (std::move (a)); a.clear (); break;
      case 9: a.assign (std::move (b)); b.clear (); break;
      case 10: { gch::small_vector<MoveOnlyT, 2> t; t.emplace_back (next++); t.emplace_back (next++); t.emplace_back (next++); a.swap (t); break; }
      default: if (n) a.pop_back (); break;
    }
    d.mark ("a"); observe (d, a);
    d.mark ("b"); observe (d, b);
  }
  return d.h;
}
#endif

// F7: element type with nothrow moves but a throwing ADL swap: swap's exception specification (for std::allocator it
// does not depend on is_always_equal) and the behaviour of a failing element-wise swap must not depend on the standard
struct SwapT
{
  int v;
  static int fuse;
  SwapT (int x = 0) : v (x) { }
  SwapT (const SwapT& o) : v (o.v) { }
  SwapT (SwapT&& o) noexcept : v (o.v) { o.v = -1; }
  SwapT& operator= (const SwapT& o) { v = o.v; return *this; }
  SwapT& operator= (SwapT&& o) noexcept { v = o.v; o.v = -1; return *this; }
  friend void swap (SwapT& a, SwapT& b)
  {
    if (fuse > 0 && --fuse == 0) throw 42;
    int t = a.v; a.v = b.v; b.v = t;
  }
};
int SwapT::fuse = 0;
inline int val (const SwapT& t) { return t.v; }

static uint64_t swapthrow_family (uint64_t seed, bool trace)
{
  Rng rng (seed);
  Digest d; d.trace = trace;
  typedef gch::small_vector<SwapT, 4> V;
  typedef gch::small_vector<SwapT, 0> V0;
  V a, b; V0 c, e;
  d.mark ("noexcept");
  d.add (noexcept (a.swap (b)) ? 1 : 0);
  d.add (noexcept (c.swap (e)) ? 1 : 0);
  for (int round = 0; round < 8; ++round)
  {
    a.clear (); b.clear ();
    const unsigned na = static_cast<unsigned> (rng.below (5)), nb = static_cast<unsigned> (rng.below (5));
    for (unsigned i = 0; i < na; ++i) a.emplace_back (static_cast<int> (10 + i));
    for (unsigned i = 0; i < nb; ++i) b.emplace_back (static_cast<int> (50 + i));
    if (round & 1) b.reserve (9);        // one side on the heap: buffers are exchanged, elements are not swapped
    SwapT::fuse = static_cast<int> (rng.below (4));   // 0 = never throws
    int out = 0;
    try { if (round & 2) { using std::swap; swap (a, b); } else a.swap (b); }
    catch (int) { out = 1; }
    SwapT::fuse = 0;
    d.mark ("swap"); d.add (out);
    d.mark ("a"); observe (d, a);
    d.mark ("b"); observe (d, b);
  }
  return d.h;
}

int main (int argc, char **argv)
{
  setvbuf (stdout, 0, _IOLBF, 0);
  G ().engine = "xstd";
  G ().monitors = 0;   // the oracle is the cross-build comparison, not the in-process monitors
  const uint64_t seed = arg_u64 (argc, argv, "--seed", 1);
  const int cases = static_cast<int> (arg_u64 (argc, argv, "--cases", 500));
  const int len = static_cast<int> (arg_u64 (argc, argv, "--len", 50));
  const char *trace = arg_str (argc, argv, "--trace-history", 0);
  std::printf ("{\"type\":\"config\",\"engine\":\"xstd\",\"std\":%ld}\n", static_cast<long> (__cplusplus));
  typedef LedgerAlloc<int, ACfg<false, false, false, false> > AI0;
  typedef LedgerAlloc<Triv, ACfg<true, true, true, false> > AT1;
  typedef LedgerAlloc<TNx, ACfg<false, true, false, true> > AN2;
  typedef LedgerAlloc<int, ACfg<false, false, false, false, unsigned char> > AI8;
#ifdef XSTD_TWIN
  if (arg_flag (argc, argv, "--twin") || true)
  {
    // C13 twin replay: the same history on int / trivially copyable struct / non-trivial struct must give identical traces
    G ().monitors = 1ull << 13;   // ledger canaries (bytes outside the elements' storage)
    typedef LedgerAlloc<int, ACfg<false, true, false, false> > LI;
    typedef LedgerAlloc<Triv, ACfg<false, true, false, false> > LT;
    typedef LedgerAlloc<NonTriv, ACfg<false, true, false, false> > LN;
    for (int i = 0; i < cases; ++i)
    {
      uint64_t hs = mix64 (seed, static_cast<uint64_t> (i));
      for (int g = 0; g < 4; ++g)
      {
        char id[64]; std::snprintf (id, sizeof id, "%d.t%d", i, g);
        bool tr = trace && ! std::strcmp (trace, id);
        uint64_t h[3];
        for (int t = 0; t < 3; ++t)
        {
          if (tr) std::printf ("TRACE %s type %d", id, t);
          switch (g * 3 + t)
          {
            case 0: h[t] = Corpus<int, std::allocator<int>, 2, 5>::history (hs, len, 40, tr); break;
            case 1: h[t] = Corpus<Triv, std::allocator<Triv>, 2, 5>::history (hs, len, 40, tr); break;
            case 2: h[t] = Corpus<NonTriv, std::allocator<NonTriv>, 2, 5>::history (hs, len, 40, tr); break;
            case 3: h[t] = Corpus<int, std::allocator<int>, 0, 3>::history (hs + 1, len, 40, tr); break;
            case 4: h[t] = Corpus<Triv, std::allocator<Triv>, 0, 3>::history (hs + 1, len, 40, tr); break;
            case 5: h[t] = Corpus<NonTriv, std::allocator<NonTriv>, 0, 3>::history (hs + 1, len, 40, tr); break;
            case 6: h[t] = Corpus<int, LI, 4, 1>::history (hs + 2, len, 40, tr); break;
            case 7: h[t] = Corpus<Triv, LT, 4, 1>::history (hs + 2, len, 40, tr); break;
            case 8: h[t] = Corpus<NonTriv, LN, 4, 1>::history (hs + 2, len, 40, tr); break;
            case 9: h[t] = Corpus<int, LI, 8, 8>::history (hs + 3, len, 60, tr); break;
            case 10: h[t] = Corpus<Triv, LT, 8, 8>::history (hs + 3, len, 60, tr); break;
            default: h[t] = Corpus<NonTriv, LN, 8, 8>::history (hs + 3, len, 60, tr); break;
          }
          if (tr) std::printf ("\n");
        }
        std::printf ("{\"type\":\"twin\",\"id\":\"%s\",\"int\":\"%016llx\",\"triv\":\"%016llx\",\"nontriv\":\"%016llx\"}\n", id,
                     static_cast<unsigned long long> (h[0]), static_cast<unsigned long long> (h[1]), static_cast<unsigned long long> (h[2]));
      }
    }
    std::printf ("{\"type\":\"done\",\"chunks\":1,\"deaths\":0}\n");
    return 0;
  }
#else
  for (int i = 0; i < cases; ++i)
  {
    uint64_t hs = mix64 (seed, static_cast<uint64_t> (i));
    const char *fam = "?"; uint64_t h = 0;
    char id[64]; bool tr;
#ifndef XSTD_PROBE_ONLY
    for (int f = 0; f < 7; ++f)
    {
      std::snprintf (id, sizeof id, "%d.%d", i, f);
      tr = trace && ! std::strcmp (trace, id);
      if (tr) std::printf ("TRACE %s", id);
      switch (f)
      {
        case 0: fam = "int/std"; h = Corpus<int, std::allocator<int>, 2, 5>::history (hs, len, 40, tr); break;
        case 1: fam = "Triv/std"; h = Corpus<Triv, std::allocator<Triv>, 0, 3>::history (hs + 1, len, 40, tr); break;
        case 2: fam = "TNx/std"; h = Corpus<TNx, std::allocator<TNx>, 4, 1>::history (hs + 2, len, 40, tr); break;
        case 3: fam = "int/L000"; h = Corpus<int, AI0, 3, 0>::history (hs + 3, len, 40, tr); break;
        case 4: fam = "Triv/L111"; h = Corpus<Triv, AT1, 2, 5>::history (hs + 4, len, 40, tr); break;
        case 5: fam = "TNx/L010ae"; h = Corpus<TNx, AN2, 2, 5>::history (hs + 5, len, 40, tr); break;
        default: fam = "int/u8"; h = Corpus<int, AI8, 2, 5>::history (hs + 6, len, 90, tr); break;   // max_size() 63: length_error paths
      }
      if (tr) std::printf ("\n");
      std::printf ("{\"type\":\"digest\",\"id\":\"%s\",\"family\":\"%s\",\"h\":\"%016llx\"}\n", id, fam, static_cast<unsigned long long> (h));
    }
#endif
    (void) fam;
    std::snprintf (id, sizeof id, "%d.c", i);
    tr = trace && ! std::strcmp (trace, id);
    if (tr) std::printf ("TRACE %s", id);
    h = converting (hs + 9, tr);
    if (tr) std::printf ("\n");
    std::printf ("{\"type\":\"digest\",\"id\":\"%s\",\"family\":\"converting\",\"h\":\"%016llx\"}\n", id, static_cast<unsigned long long> (h));
    std::snprintf (id, sizeof id, "%d.s", i);
    tr = trace && ! std::strcmp (trace, id);
    if (tr) std::printf ("TRACE %s", id);
    h = swapthrow_family (hs + 13, tr);
    if (tr) std::printf ("\n");
    std::printf ("{\"type\":\"digest\",\"id\":\"%s\",\"family\":\"throwing-swap/std\",\"h\":\"%016llx\"}\n", id, static_cast<unsigned long long> (h));
#ifndef XSTD_NO_F6
    std::snprintf (id, sizeof id, "%d.m", i);
    tr = trace && ! std::strcmp (trace, id);
    if (tr) std::printf ("TRACE %s", id);
    h = moveonly_family (hs + 11, tr);
    if (tr) std::printf ("\n");
    std::printf ("{\"type\":\"digest\",\"id\":\"%s\",\"family\":\"move-only/std\",\"h\":\"%016llx\"}\n", id, static_cast<unsigned long long> (h));
#endif
  }
#endif
  std::printf ("{\"type\":\"done\",\"chunks\":1,\"deaths\":0}\n");
  return 0;
}
