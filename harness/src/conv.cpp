// conv.cpp -- C13 conversion matrix: every element built or assigned from a value / range of a
// different but convertible type must equal static_cast<To>(source), whatever fast path is taken.
#include <svmon/core.hpp>
#include <gch/small_vector.hpp>
#include <vector>
#include <list>
#include <limits>
#include <iterator>
#include <type_traits>
#include <typeinfo>

using namespace svmon;

enum E8 : unsigned char { E8_A = 0, E8_B = 7, E8_C = 200, E8_D = 255 };
enum E32 : int { E32_A = -5, E32_B = 0, E32_C = 123456, E32_D = 2147483647 };
enum EU32 : unsigned { EU_A = 0, EU_B = 9, EU_C = 4000000000u };
enum E16 : short { E16_A = -300, E16_B = 0, E16_C = 32000 };

struct Base1 { int a; virtual ~Base1 () { } };
struct Base2 { int b; virtual ~Base2 () { } };
struct Derived : Base1, Base2 { int c; };
struct VBase { int v; virtual ~VBase () { } };
struct VDerived : virtual VBase { int d; };
struct Plain { int x; };

static long g_cells = 0, g_elems = 0;
static const char *g_from = "?", *g_to = "?";

template <typename To> static bool same (const To& a, const To& b) { return a == b; }

template <typename From, typename To>
static void expect_eq (const char *op, const char *itk, const To& stored, const From& src, size_t idx)
{
  ++g_elems;
  const To want = static_cast<To> (src);
  if (! same (stored, want))
  {
    G ().opkey = format ("%s->%s/%s/%s", g_from, g_to, op, itk);
    G ().caseid = format ("%s->%s/%s/%s/%zu", g_from, g_to, op, itk, idx);
    violate ("C13", "conv.value", "%s -> %s, %s from %s: element %zu is not static_cast<To>(source) (bytes were copied instead of converting?)", g_from, g_to, op, itk, idx);
  }
}

// single-pass input iterator over a From array, yields by value
template <typename From>
struct InIt
{
  typedef std::input_iterator_tag iterator_category;
  typedef From value_type;
  typedef std::ptrdiff_t difference_type;
  typedef const From *pointer;
  typedef From reference;
  const From *p;
  InIt () : p (0) { }
  explicit InIt (const From *q) : p (q) { }
  From operator* () const { return *p; }
  InIt& operator++ () { ++p; return *this; }
  InIt operator++ (int) { InIt t (*this); ++p; return t; }
  friend bool operator== (const InIt& a, const InIt& b) { return a.p == b.p; }
  friend bool operator!= (const InIt& a, const InIt& b) { return a.p != b.p; }
};

template <typename From> struct FromGen { const From *p; size_t i; From operator() () { return p[i++]; } };

template <typename To, unsigned N, typename From, typename It>
static void range_ops (const char *itk, const std::vector<From>& src, It first, It last, bool single_pass)
{
  typedef gch::small_vector<To, N> V;
  const size_t n = src.size ();
  const To pre0 = static_cast<To> (src[0]), pre1 = static_cast<To> (src[n - 1]);
  {
    V v (first, last);
    for (size_t i = 0; i < v.size () && i < n; ++i) expect_eq<From, To> ("ctor(range)", itk, v[static_cast<typename V::size_type> (i)], src[i], i);
    if (v.size () != n) { G ().opkey = format ("%s->%s/ctor/%s", g_from, g_to, itk); violate ("C13", "conv.size", "%s -> %s ctor(range) from %s: size %zu != %zu", g_from, g_to, itk, size_t (v.size ()), n); }
  }
  if (single_pass) return;   // one traversal only
  {
    V v; v.push_back (pre0); v.push_back (pre1);
    v.assign (first, last);
    for (size_t i = 0; i < v.size () && i < n; ++i) expect_eq<From, To> ("assign(range)", itk, v[static_cast<typename V::size_type> (i)], src[i], i);
  }
  {
    V v; v.reserve (static_cast<typename V::size_type> (2 * n + 4)); v.push_back (pre0); v.push_back (pre1);   // fits: overwrite + uninitialized paths
    v.assign (first, last);
    for (size_t i = 0; i < v.size () && i < n; ++i) expect_eq<From, To> ("assign(range,fits)", itk, v[static_cast<typename V::size_type> (i)], src[i], i);
  }
  {
    V v; v.push_back (pre0); v.push_back (pre1);
    v.insert (v.begin () + 1, first, last);
    for (size_t i = 0; i < n; ++i) expect_eq<From, To> ("insert(mid,range)", itk, v[static_cast<typename V::size_type> (i + 1)], src[i], i);
    if (! same (v[0], pre0) || ! same (v[static_cast<typename V::size_type> (n + 1)], pre1))
    { G ().opkey = format ("%s->%s/insert/%s", g_from, g_to, itk); violate ("C13", "conv.neighbour", "%s -> %s insert(range) from %s changed a neighbouring element", g_from, g_to, itk); }
  }
  {
    V v; v.reserve (static_cast<typename V::size_type> (n + 8));
    for (int k = 0; k < 5; ++k) v.push_back (k % 2 ? pre0 : pre1);
    v.insert (v.begin () + 2, first, last);     // fits, tail (3) vs count
    for (size_t i = 0; i < n; ++i) expect_eq<From, To> ("insert(mid,range,fits)", itk, v[static_cast<typename V::size_type> (i + 2)], src[i], i);
  }
  {
    V v; v.push_back (pre0);
    v.append (first, last);
    for (size_t i = 0; i < n; ++i) expect_eq<From, To> ("append(range)", itk, v[static_cast<typename V::size_type> (i + 1)], src[i], i);
  }
}

// Half selects which iterator kinds run for this N (keeps the number of instantiations affordable)
template <typename From, typename To, unsigned N, int Half>
static void cell_n (const std::vector<From>& src)
{
  typedef gch::small_vector<To, N> V;
  const size_t n = src.size ();
  // element-wise
  {
    V v;
    for (size_t i = 0; i < n; ++i) { To& r = v.emplace_back (src[i]); expect_eq<From, To> ("emplace_back", "value", r, src[i], i); }
    for (size_t i = 0; i < n; ++i) expect_eq<From, To> ("emplace_back(after growth)", "value", v[static_cast<typename V::size_type> (i)], src[i], i);
  }
  {
    V v; v.emplace_back (src[0]); v.emplace_back (src[n - 1]);
    for (size_t i = 0; i < n; ++i) v.emplace (v.begin () + 1, src[i]);
    for (size_t i = 0; i < n; ++i) expect_eq<From, To> ("emplace(mid)", "value", v[static_cast<typename V::size_type> (n - i)], src[i], i);
  }
  {
    FromGen<From> g; g.p = &src[0]; g.i = 0;
    V v (static_cast<typename V::size_type> (n), g);
    for (size_t i = 0; i < n; ++i) expect_eq<From, To> ("ctor(n,generator)", "value", v[static_cast<typename V::size_type> (i)], src[i], i);
  }
  // ranges of every iterator kind
  {
    std::vector<From> heap (src);                                   // exact-size heap array: over-reads hit ASan red zones
    From *p = &heap[0];
    std::list<From> l (src.begin (), src.end ());
    gch::small_vector<From, 3> g (src.begin (), src.end ());
    if (Half == 0)
    {
      range_ops<To, N> ("From*", src, p, p + n, false);
      range_ops<To, N> ("vector<From>::const_iterator", src, heap.cbegin (), heap.cend (), false);
      range_ops<To, N> ("small_vector<From>::iterator", src, g.begin (), g.end (), false);
      range_ops<To, N> ("list<From>::iterator", src, l.begin (), l.end (), false);
      range_ops<To, N> ("move_iterator<From*>", src, std::make_move_iterator (p), std::make_move_iterator (p + n), false);
    }
    else
    {
      range_ops<To, N> ("const From*", src, static_cast<const From *> (p), static_cast<const From *> (p + n), false);
      range_ops<To, N> ("vector<From>::iterator", src, heap.begin (), heap.end (), false);
      range_ops<To, N> ("small_vector<From>::const_iterator", src, g.cbegin (), g.cend (), false);
      range_ops<To, N> ("reverse(reverse(From*))", src, std::reverse_iterator<std::reverse_iterator<From *> > (std::reverse_iterator<From *> (p)),
                        std::reverse_iterator<std::reverse_iterator<From *> > (std::reverse_iterator<From *> (p + n)), false);
    }
    range_ops<To, N> ("input iterator", src, InIt<From> (p), InIt<From> (p + n), true);
    if (Half == 1)
    {
      typedef gch::small_vector<To, N> V2;
      V2 v; v.push_back (static_cast<To> (src[0]));
      v.insert (v.begin (), InIt<From> (p), InIt<From> (p + n));
      for (size_t i = 0; i < n; ++i) expect_eq<From, To> ("insert(begin,range)", "input iterator", v[static_cast<typename V2::size_type> (i)], src[i], i);
      V2 w; w.append (InIt<From> (p), InIt<From> (p + n)); w.assign (InIt<From> (p), InIt<From> (p + n));
      for (size_t i = 0; i < n; ++i) expect_eq<From, To> ("assign(range)", "input iterator", w[static_cast<typename V2::size_type> (i)], src[i], i);
    }
  }
}

template <typename From, typename To>
static void cell (const char *from, const char *to, const std::vector<From>& src)
{
  g_from = from; g_to = to;
  ++g_cells;
  marker_desc (format ("%s -> %s", from, to).c_str (), "conv");
  cell_n<From, To, 0, 0> (src);
  cell_n<From, To, 4, 1> (src);
  COV ().tuple (format ("%s->%s|same-size=%d|trivially-constructible=%d", from, to, int (sizeof (From) == sizeof (To)), int (std::is_trivially_constructible<To, From>::value)));
  COV ().evaluations = g_elems;
}

template <typename I>
static std::vector<I> ints ()
{
  typedef std::numeric_limits<I> L;
  std::vector<I> r;
  I c[] = { I (0), I (1), I (2), I (-1), (L::min) (), (L::max) (), I ((L::max) () / 2 + 1), I (0x55), I (0xAA), I (100), I (-100), I ((L::max) () - 1) };
  r.assign (c, c + sizeof c / sizeof c[0]);
  return r;
}

template <typename F>
static std::vector<F> floats ()
{
  F c[] = { F (0), F (1), F (-1), F (2.5), F (-2.5), F (100.75), F (-100.25), F (65535.5), F (-32768.0), F (0.999), F (123456.0), F (7) };
  return std::vector<F> (c, c + sizeof c / sizeof c[0]);
}

// ---- value-initialisation cells: V(n) / resize(n) must produce T() whatever shortcut fills the storage
struct MPHolder { int MPHolder::*mp; int x; };
inline bool operator== (const MPHolder& a, const MPHolder& b) { return a.mp == b.mp && a.x == b.x; }
struct TrivAgg { double d; int *p; char c; };
inline bool operator== (const TrivAgg& a, const TrivAgg& b) { return a.d == b.d && a.p == b.p && a.c == b.c; }

template <typename T, unsigned N>
static void value_init_n (const char *tname)
{
  typedef gch::small_vector<T, N> V;
  const T zero = T ();
  for (unsigned n = 0; n < 12; ++n)
  {
    V v (static_cast<typename V::size_type> (n));
    V w; w.resize (static_cast<typename V::size_type> (n));
    V x; x.reserve (20); x.resize (static_cast<typename V::size_type> (n));            // heap with slack
    V y (static_cast<typename V::size_type> (3), zero); y.resize (static_cast<typename V::size_type> (3 + n));   // grow an existing vector
    ++g_elems;
    bool ok = v.size () == n && w.size () == n && x.size () == n && y.size () == 3 + n;
    for (unsigned i = 0; ok && i < n; ++i) ok = v[i] == zero && w[i] == zero && x[i] == zero && y[3 + i] == zero;
    if (! ok)
    {
      G ().opkey = format ("value-init/%s", tname);
      G ().caseid = format ("value-init/%s/N%u/n%u", tname, N, n);
      violate ("C13", "conv.value-init", "small_vector<%s,%u>(%u) / resize(%u): an element is not a value-initialised %s (storage was filled with bytes instead of T()?)", tname, N, n, n, tname);
      return;
    }
  }
}

template <typename T>
static void value_init_cell (const char *tname)
{
  g_from = "value-init"; g_to = tname;
  ++g_cells;
  marker_desc (format ("value-init %s", tname).c_str (), "conv");
  value_init_n<T, 0> (tname); value_init_n<T, 4> (tname); value_init_n<T, 16> (tname);
  COV ().tuple (format ("value-init|%s|trivially-default-constructible=%d", tname, int (std::is_trivially_default_constructible<T>::value)));
  COV ().evaluations = g_elems;
}

#define CELL(F, T, SRC) cell<F, T> (#F, #T, SRC)
#ifndef CONV_PART
#  define CONV_PART 0     // 0 = everything in one TU (slow to compile); 1..8 = one group
#endif
#define PART(k) (CONV_PART == 0 || CONV_PART == (k))

int main (int argc, char **argv)
{
  setvbuf (stdout, 0, _IOLBF, 0);
  G ().engine = "conv";
  G ().monitors = ~0ull;
  install_death_handlers ();
  (void) argc; (void) argv;
  std::printf ("{\"type\":\"config\",\"engine\":\"conv\",\"std\":%ld,\"part\":%d}\n", static_cast<long> (__cplusplus), CONV_PART);
#if PART (1)
  {
    // same width, different signedness / type
    CELL (int, unsigned, ints<int> ()); CELL (unsigned, int, ints<unsigned> ());
    CELL (short, unsigned short, ints<short> ()); CELL (unsigned short, short, ints<unsigned short> ());
    CELL (char, signed char, ints<char> ()); CELL (signed char, unsigned char, ints<signed char> ()); CELL (unsigned char, char, ints<unsigned char> ());
    CELL (long, unsigned long, ints<long> ());
  }
#endif
#if PART (2)
  {
    CELL (long, long long, ints<long> ()); CELL (unsigned long long, long, ints<unsigned long long> ());
    CELL (wchar_t, int, ints<wchar_t> ()); CELL (int, wchar_t, ints<int> ()); CELL (char16_t, unsigned short, ints<char16_t> ());
    CELL (char32_t, unsigned, ints<char32_t> ()); CELL (unsigned, char32_t, ints<unsigned> ()); CELL (short, char16_t, ints<short> ());
  }
#endif
#if PART (3)
  {
    // different width
    CELL (short, int, ints<short> ()); CELL (int, short, ints<int> ()); CELL (unsigned char, int, ints<unsigned char> ()); CELL (int, unsigned char, ints<int> ());
    CELL (int, long long, ints<int> ()); CELL (long long, int, ints<long long> ()); CELL (signed char, unsigned, ints<signed char> ());
    CELL (unsigned, unsigned long, ints<unsigned> ()); CELL (long, short, ints<long> ());
    // bool
    CELL (int, bool, ints<int> ()); CELL (unsigned char, bool, ints<unsigned char> ()); CELL (signed char, bool, ints<signed char> ());
  }
#endif
#if PART (4)
  {
    E8 a8[] = { E8_A, E8_B, E8_C, E8_D, E8_B }; std::vector<E8> v8 (a8, a8 + 5);
    E32 a32[] = { E32_A, E32_B, E32_C, E32_D, E32_A }; std::vector<E32> v32 (a32, a32 + 5);
    EU32 au[] = { EU_A, EU_B, EU_C, EU_B }; std::vector<EU32> vu (au, au + 4);
    CELL (E8, unsigned char, v8); CELL (E8, signed char, v8); CELL (E8, int, v8); CELL (E8, char, v8);
    CELL (E32, int, v32); CELL (E32, unsigned, v32); CELL (E32, long long, v32); CELL (E32, short, v32);
    CELL (EU32, unsigned, vu); CELL (EU32, int, vu); CELL (EU32, unsigned long, vu);
  }
#endif
#if PART (5)
  {
    E8 a8[] = { E8_A, E8_B, E8_C, E8_D, E8_B }; std::vector<E8> v8 (a8, a8 + 5);
    E32 a32[] = { E32_A, E32_B, E32_C, E32_D, E32_A }; std::vector<E32> v32 (a32, a32 + 5);
    E16 a16[] = { E16_A, E16_B, E16_C, E16_A }; std::vector<E16> v16 (a16, a16 + 4);
    CELL (E16, short, v16); CELL (E16, unsigned short, v16); CELL (E16, int, v16); CELL (E16, char16_t, v16);
    CELL (E8, E8, v8); CELL (E32, E32, v32);
  }
#endif
#if PART (6)
  {
    CELL (float, int, floats<float> ()); CELL (double, int, floats<double> ());
    { std::vector<short> sh = ints<short> (); CELL (int, float, std::vector<int> (sh.begin (), sh.end ())); }
    CELL (int, double, ints<int> ()); CELL (float, double, floats<float> ()); CELL (double, float, floats<double> ()); CELL (double, long long, floats<double> ());
    CELL (float, unsigned, std::vector<float> (5, 65535.5f)); CELL (unsigned, float, std::vector<unsigned> (6, 16777216u));
    CELL (long long, double, std::vector<long long> (5, 1ll << 40)); CELL (float, short, std::vector<float> (4, 100.5f));
  }
#endif
#if PART (7) || PART (8)
  {
    static Derived ds[6]; static VDerived vds[4]; static Plain ps[5]; static int is[5];
    std::vector<Derived *> dp; for (int i = 0; i < 6; ++i) dp.push_back (&ds[i]);
    dp.push_back (0);   // null pointers must stay null through the conversion
    std::vector<VDerived *> vp; for (int i = 0; i < 4; ++i) vp.push_back (&vds[i]);
    std::vector<Plain *> pp; for (int i = 0; i < 5; ++i) pp.push_back (&ps[i]);
    std::vector<int *> ip; for (int i = 0; i < 5; ++i) ip.push_back (&is[i]);
    std::vector<const int *> cip (ip.begin (), ip.end ());
    (void) vp; (void) pp; (void) cip;
#if PART (7)
    CELL (Derived *, Base1 *, dp); CELL (Derived *, Base2 *, dp); CELL (Derived *, const Base2 *, dp); CELL (Derived *, void *, dp); CELL (Derived *, const void *, dp);
    CELL (VDerived *, VBase *, vp); CELL (VDerived *, const VBase *, vp); CELL (Derived *, Derived *, dp);
#endif
#if PART (8)
    value_init_cell<int> ("int"); value_init_cell<double> ("double"); value_init_cell<float> ("float"); value_init_cell<bool> ("bool");
    value_init_cell<int *> ("int*"); value_init_cell<E32> ("E32"); value_init_cell<int Plain::*> ("int Plain::*");
    value_init_cell<MPHolder> ("struct{member pointer,int}"); value_init_cell<TrivAgg> ("struct{double,int*,char}");
    value_init_cell<void (Plain::*) ()> ("void (Plain::*)()"); value_init_cell<long double> ("long double");
    CELL (Plain *, const Plain *, pp); CELL (Plain *, void *, pp); CELL (Plain *, const volatile Plain *, pp);
    CELL (int *, const int *, ip); CELL (int *, void *, ip); CELL (const int *, const void *, cip); CELL (int *, const volatile void *, ip);
    CELL (Derived *, const Derived *, dp);
#endif
  }
#endif
  emit_coverage ();
  std::printf ("{\"type\":\"done\",\"chunks\":1,\"deaths\":0,\"cells\":%ld,\"elements\":%ld}\n", g_cells, g_elems);
  return 0;
}
