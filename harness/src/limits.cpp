// limits.cpp -- C12: max_size() / length_error / no wrap-around, for allocators with narrow size_type.
// LIM_GROUP selects the configuration group: 0 = uint8_t (exhaustive), 1 = uint16_t, 2 = uint32_t,
// 3 = size_t with a max_size() cap, 4 = inline capacity larger than max_size().
#include <svmon/core.hpp>
#include <svmon/alloc.hpp>
#include <gch/small_vector.hpp>
#include <vector>
#include <iterator>
#include <limits>

#ifndef LIM_GROUP
#  define LIM_GROUP 0
#endif

using namespace svmon;

struct NT   // non-trivial 4-byte element: generic (non-memcpy) paths
{
  int v;
  NT (int x = 0) : v (x) { }
  NT (const NT& o) : v (o.v) { }
  NT& operator= (const NT& o) { v = o.v; return *this; }
  ~NT () { v = -1; }
};
inline int val (const NT& x) { return x.v; }
template <typename I> inline int val (I x) { return static_cast<int> (x); }

// memory-free iterator over the sequence 0,1,2,... (values i & 0x3f)
template <typename T, typename Cat>
struct CountIt
{
  typedef Cat            iterator_category;
  typedef T              value_type;
  typedef std::ptrdiff_t difference_type;
  typedef const T       *pointer;
  typedef T              reference;
  uint64_t i;
  CountIt () : i (0) { }
  explicit CountIt (uint64_t k) : i (k) { }
  T operator* () const { return T (static_cast<int> (i & 0x3f)); }
  CountIt& operator++ () { ++i; return *this; }
  CountIt operator++ (int) { CountIt t (*this); ++i; return t; }
  CountIt& operator-- () { --i; return *this; }
  CountIt operator-- (int) { CountIt t (*this); --i; return t; }
  CountIt& operator+= (std::ptrdiff_t n) { i = static_cast<uint64_t> (static_cast<int64_t> (i) + n); return *this; }
  CountIt& operator-= (std::ptrdiff_t n) { return *this += -n; }
  friend CountIt operator+ (CountIt a, std::ptrdiff_t n) { a += n; return a; }
  friend CountIt operator+ (std::ptrdiff_t n, CountIt a) { a += n; return a; }
  friend CountIt operator- (CountIt a, std::ptrdiff_t n) { a -= n; return a; }
  friend std::ptrdiff_t operator- (const CountIt& a, const CountIt& b) { return static_cast<std::ptrdiff_t> (a.i - b.i); }
  T operator[] (std::ptrdiff_t n) const { return *(*this + n); }
  friend bool operator== (const CountIt& a, const CountIt& b) { return a.i == b.i; }
  friend bool operator!= (const CountIt& a, const CountIt& b) { return a.i != b.i; }
  friend bool operator<  (const CountIt& a, const CountIt& b) { return a.i <  b.i; }
  friend bool operator>  (const CountIt& a, const CountIt& b) { return a.i >  b.i; }
  friend bool operator<= (const CountIt& a, const CountIt& b) { return a.i <= b.i; }
  friend bool operator>= (const CountIt& a, const CountIt& b) { return a.i >= b.i; }
};

struct CountGen
{
  uint64_t *calls;
  int operator() () { return static_cast<int> ((*calls)++ & 0x3f); }
};

enum LOp
{
  L_PUSH_BACK = 0, L_EMPLACE, L_INSERT_N, L_INSERT_RANGE_IN, L_INSERT_RANGE_FWD, L_INSERT_RANGE_RA, L_APPEND_RANGE_IN, L_APPEND_RANGE_FWD,
  L_APPEND_RANGE_RA, L_ASSIGN_RANGE_IN, L_ASSIGN_RANGE_FWD, L_ASSIGN_RANGE_RA, L_ASSIGN_N, L_RESIZE, L_RESIZE_VAL, L_RESERVE,
  L_CTOR_N, L_CTOR_N_VAL, L_CTOR_GEN, L_CTOR_RANGE_IN, L_CTOR_RANGE_FWD, L_CTOR_RANGE_RA, L_CTOR_COPY_BIGGER, L__COUNT
};
static const char *lop_name (int o)
{
  static const char *n[] = { "push_back", "emplace", "insert(pos,n,x)", "insert(pos,input-range)", "insert(pos,forward-range)", "insert(pos,random-range)",
    "append(input-range)", "append(forward-range)", "append(random-range)", "assign(input-range)", "assign(forward-range)", "assign(random-range)",
    "assign(n,x)", "resize(n)", "resize(n,x)", "reserve", "ctor(n)", "ctor(n,x)", "ctor(n,gen)", "ctor(input-range)", "ctor(forward-range)", "ctor(random-range)",
    "ctor(copy of larger-N container)" };
  return n[o];
}
static bool lop_is_range (int o) { return (o >= L_INSERT_RANGE_IN && o <= L_ASSIGN_RANGE_RA) || (o >= L_CTOR_RANGE_IN && o <= L_CTOR_RANGE_RA); }
static bool lop_is_ctor (int o) { return o >= L_CTOR_N; }
static bool lop_takes_size_type (int o) { return o == L_INSERT_N || o == L_ASSIGN_N || o == L_RESIZE || o == L_RESIZE_VAL || o == L_RESERVE || o == L_CTOR_N || o == L_CTOR_N_VAL || o == L_CTOR_GEN; }

struct LCase { int op; uint64_t size, count, pos; };

static long g_length_errors = 0, g_ok_ops = 0, g_max_request = 0;

template <typename SizeT, typename T, unsigned N, unsigned long Cap>
struct Lim
{
  typedef LedgerAlloc<T, ACfg<false, false, false, false, SizeT, Cap> > A;
  typedef gch::small_vector<T, N, A> V;
  typedef typename V::size_type S;
  const char *name;
  uint64_t maxs;
  explicit Lim (const char *n) : name (n) { V v; maxs = static_cast<uint64_t> (v.max_size ()); }

  static uint64_t type_max () { return static_cast<uint64_t> ((std::numeric_limits<S>::max) ()); }

  void fill (V& v, uint64_t s)
  {
    v.reserve (static_cast<S> (s));
    for (uint64_t i = 0; i < s; ++i) v.emplace_back (static_cast<int> ((i * 7) & 0x3f));
  }

  void run (const LCase& c)
  {
    Globals& g = G ();
    { Internal in;
      mstring d = format ("%s %s size=%llu count=%llu pos=%llu (max_size %llu, N %u)", name, lop_name (c.op), (unsigned long long) c.size,
                          (unsigned long long) c.count, (unsigned long long) c.pos, (unsigned long long) maxs, N);
      marker_desc (d.c_str (), format ("%s/%s", lop_name (c.op), name).c_str ());
      g.opkey = format ("%s/%s", lop_name (c.op), name);
    }
    ++COV ().evaluations;
    Ledger& L = LEDGER ();
    L.max_request = 0;
    alignas (V) unsigned char buf[sizeof (V)];
    V *vp = 0;
    std::vector<int> before;
    uint64_t cap0 = 0; const void *data0 = 0;
    if (! lop_is_ctor (c.op))
    {
      vp = ::new (static_cast<void *> (buf)) V ();
      fill (*vp, c.size);
      for (uint64_t i = 0; i < c.size; ++i) before.push_back (val ((*vp)[static_cast<S> (i)]));
      cap0 = vp->capacity (); data0 = vp->data ();
    }
    // expected outcome, computed in 64-bit arithmetic
    uint64_t new_size = 0; bool too_big = false;
    switch (c.op)
    {
      case L_PUSH_BACK: case L_EMPLACE: new_size = c.size + 1; break;
      case L_INSERT_N: case L_INSERT_RANGE_IN: case L_INSERT_RANGE_FWD: case L_INSERT_RANGE_RA:
      case L_APPEND_RANGE_IN: case L_APPEND_RANGE_FWD: case L_APPEND_RANGE_RA:
        new_size = c.size + c.count; if (new_size < c.size) too_big = true; break;
      case L_RESERVE: new_size = c.size; too_big = c.count > maxs; break;
      case L_CTOR_COPY_BIGGER: new_size = c.count; break;
      default: new_size = c.count; break;
    }
    if (new_size > maxs) too_big = true;
    Outcome o = OUT_NORMAL;
    uint64_t gen_calls = 0;
    const S cnt = static_cast<S> (c.count);
    const T x (static_cast<int> (0x2a));
    g.in_window = true; g.window_allocs = 0;
    try
    {
      switch (c.op)
      {
        case L_PUSH_BACK: vp->push_back (x); break;
        case L_EMPLACE: vp->emplace (vp->begin () + static_cast<std::ptrdiff_t> (c.pos), 0x2a); break;
        case L_INSERT_N: vp->insert (vp->begin () + static_cast<std::ptrdiff_t> (c.pos), cnt, x); break;
        case L_INSERT_RANGE_IN: vp->insert (vp->begin () + static_cast<std::ptrdiff_t> (c.pos), CountIt<T, std::input_iterator_tag> (0), CountIt<T, std::input_iterator_tag> (c.count)); break;
        case L_INSERT_RANGE_FWD: vp->insert (vp->begin () + static_cast<std::ptrdiff_t> (c.pos), CountIt<T, std::forward_iterator_tag> (0), CountIt<T, std::forward_iterator_tag> (c.count)); break;
        case L_INSERT_RANGE_RA: vp->insert (vp->begin () + static_cast<std::ptrdiff_t> (c.pos), CountIt<T, std::random_access_iterator_tag> (0), CountIt<T, std::random_access_iterator_tag> (c.count)); break;
        case L_APPEND_RANGE_IN: vp->append (CountIt<T, std::input_iterator_tag> (0), CountIt<T, std::input_iterator_tag> (c.count)); break;
        case L_APPEND_RANGE_FWD: vp->append (CountIt<T, std::forward_iterator_tag> (0), CountIt<T, std::forward_iterator_tag> (c.count)); break;
        case L_APPEND_RANGE_RA: vp->append (CountIt<T, std::random_access_iterator_tag> (0), CountIt<T, std::random_access_iterator_tag> (c.count)); break;
        case L_ASSIGN_RANGE_IN: vp->assign (CountIt<T, std::input_iterator_tag> (0), CountIt<T, std::input_iterator_tag> (c.count)); break;
        case L_ASSIGN_RANGE_FWD: vp->assign (CountIt<T, std::forward_iterator_tag> (0), CountIt<T, std::forward_iterator_tag> (c.count)); break;
        case L_ASSIGN_RANGE_RA: vp->assign (CountIt<T, std::random_access_iterator_tag> (0), CountIt<T, std::random_access_iterator_tag> (c.count)); break;
        case L_ASSIGN_N: vp->assign (cnt, x); break;
        case L_RESIZE: vp->resize (cnt); break;
        case L_RESIZE_VAL: vp->resize (cnt, x); break;
        case L_RESERVE: vp->reserve (cnt); break;
        case L_CTOR_N: vp = ::new (static_cast<void *> (buf)) V (cnt); break;
        case L_CTOR_N_VAL: vp = ::new (static_cast<void *> (buf)) V (cnt, x); break;
        case L_CTOR_GEN: { CountGen gen; gen.calls = &gen_calls; vp = ::new (static_cast<void *> (buf)) V (cnt, gen); break; }
        case L_CTOR_RANGE_IN: vp = ::new (static_cast<void *> (buf)) V (CountIt<T, std::input_iterator_tag> (0), CountIt<T, std::input_iterator_tag> (c.count)); break;
        case L_CTOR_RANGE_FWD: vp = ::new (static_cast<void *> (buf)) V (CountIt<T, std::forward_iterator_tag> (0), CountIt<T, std::forward_iterator_tag> (c.count)); break;
        case L_CTOR_RANGE_RA: vp = ::new (static_cast<void *> (buf)) V (CountIt<T, std::random_access_iterator_tag> (0), CountIt<T, std::random_access_iterator_tag> (c.count)); break;
        case L_CTOR_COPY_BIGGER:
        {
          gch::small_vector<T, N + 9, A> big;
          big.reserve (static_cast<S> (c.count));
          for (uint64_t i = 0; i < c.count; ++i) big.emplace_back (static_cast<int> (i & 0x3f));
          vp = ::new (static_cast<void *> (buf)) V (big);
          break;
        }
      }
    }
    catch (const std::length_error&) { o = OUT_LENGTH; }
    catch (const std::bad_alloc&) { o = OUT_BADALLOC; }
    catch (...) { o = OUT_OTHER; }
    g.in_window = false;
    if (lop_is_ctor (c.op) && o != OUT_NORMAL) vp = 0;
    if (L.max_request > g_max_request) g_max_request = L.max_request;

    Internal in;
    const char *opn = lop_name (c.op);
    // never ask the allocator for more than max_size()
    if (static_cast<uint64_t> (L.max_request) > maxs)
      violate ("C12", "limits.allocate-beyond-max_size", "%s: allocate(%ld) called, max_size() is %llu", opn, L.max_request, (unsigned long long) maxs);
    if (too_big)
    {
      if (o == OUT_NORMAL)
        violate ("C12", "limits.no-length_error", "%s: resulting size/capacity %llu exceeds max_size() %llu but the call returned normally (size now %llu)",
                 opn, (unsigned long long) (c.op == L_RESERVE ? c.count : new_size), (unsigned long long) maxs, vp ? (unsigned long long) vp->size () : 0ull);
      else if (o != OUT_LENGTH)
        violate ("C12", "limits.wrong-exception", "%s: expected std::length_error, got %s", opn, outcome_name (o));
      else ++g_length_errors;
      if (vp && o != OUT_NORMAL)
      {
        // an existing container must be unchanged
        bool same = vp->size () == c.size;
        for (uint64_t i = 0; same && i < c.size; ++i) same = val ((*vp)[static_cast<S> (i)]) == before[i];
        // the single-pass overloads are allowed to have grown the capacity before failing
        bool cap_may_change = c.op == L_INSERT_RANGE_IN || c.op == L_APPEND_RANGE_IN || c.op == L_ASSIGN_RANGE_IN;
        if (! same)
          violate ("C12", "limits.changed-on-length_error", "%s: container changed although length_error was thrown (size %llu -> %llu)", opn,
                   (unsigned long long) c.size, (unsigned long long) vp->size ());
        else if (! cap_may_change && (vp->capacity () != cap0 || vp->data () != data0))
          violate ("C12", "limits.buffer-changed-on-length_error", "%s: capacity/data changed although length_error was thrown", opn);
      }
    }
    else
    {
      if (o != OUT_NORMAL)
        violate ("C12", "limits.spurious-exception", "%s: call within max_size() threw %s (new size %llu, max %llu)", opn, outcome_name (o), (unsigned long long) new_size, (unsigned long long) maxs);
      else
      {
        ++g_ok_ops;
        if (static_cast<uint64_t> (vp->size ()) != new_size)
          violate ("C12", "limits.wrong-size", "%s: size %llu, expected %llu (count or range length truncated?)", opn, (unsigned long long) vp->size (), (unsigned long long) new_size);
        else check_values (*vp, c, before);
        if (c.op == L_CTOR_GEN && gen_calls != c.count)
          violate ("C12", "limits.generator-calls", "generator called %llu times for count %llu", (unsigned long long) gen_calls, (unsigned long long) c.count);
      }
    }
    if (vp)
    {
      if (static_cast<uint64_t> (vp->size ()) > maxs)
        violate ("C12", "limits.size-gt-max_size", "%s: size() %llu > max_size() %llu", opn, (unsigned long long) vp->size (), (unsigned long long) maxs);
      if (! vp->inlined ())
      {
        const Block *b = L.find_live (vp->data ());
        if (! b) violate ("C12", "limits.buffer-not-live", "%s: data() is not a live block", opn);
        else if (b->n != static_cast<size_t> (vp->capacity ()))
          violate ("C12", "limits.capacity-vs-block", "%s: capacity() %llu but the allocator was asked for %zu elements (truncated request)", opn, (unsigned long long) vp->capacity (), b->n);
        else L.check_canaries (vp->data (), *b);
      }
      vp->~V ();
    }
    if (L.live != 0)
    {
      violate ("C12", "limits.leak", "%s: %ld block(s) leaked", opn, L.live);
      L.blocks.clear (); L.live = 0;
    }
    const char *szc = c.size == 0 ? "0" : c.size < N ? "<N" : c.size == N ? "=N" : c.size == maxs ? "=max" : c.size + 1 == maxs ? "=max-1" : "mid";
    const char *cc = too_big ? (c.count > type_max () ? "beyond-type" : new_size == maxs + 1 ? "max+1" : "too-big") : (new_size == maxs ? "=max" : "fits");
    COV ().tuple (format ("%s|%s|size%s|%s|%s", name, opn, szc, cc, outcome_name (o)));
    if ((COV ().evaluations % 50021) == 1)
      COV ().sample (format ("%s %s size=%llu count=%llu -> %s", name, opn, (unsigned long long) c.size, (unsigned long long) c.count, outcome_name (o)));
  }

  void check_values (V& v, const LCase& c, const std::vector<int>& before)
  {
    const uint64_t n = v.size ();
    bool ok = true;
    uint64_t bad = 0;
    for (uint64_t i = 0; i < n && ok; ++i)
    {
      int got = val (v[static_cast<S> (i)]), exp = -12345;
      switch (c.op)
      {
        case L_PUSH_BACK: exp = i < c.size ? before[i] : 0x2a; break;
        case L_EMPLACE: exp = i < c.pos ? before[i] : i == c.pos ? 0x2a : before[i - 1]; break;
        case L_INSERT_N: exp = i < c.pos ? before[i] : i < c.pos + c.count ? 0x2a : before[i - c.count]; break;
        case L_INSERT_RANGE_IN: case L_INSERT_RANGE_FWD: case L_INSERT_RANGE_RA:
          exp = i < c.pos ? before[i] : i < c.pos + c.count ? static_cast<int> ((i - c.pos) & 0x3f) : before[i - c.count]; break;
        case L_APPEND_RANGE_IN: case L_APPEND_RANGE_FWD: case L_APPEND_RANGE_RA:
          exp = i < c.size ? before[i] : static_cast<int> ((i - c.size) & 0x3f); break;
        case L_ASSIGN_RANGE_IN: case L_ASSIGN_RANGE_FWD: case L_ASSIGN_RANGE_RA: case L_CTOR_RANGE_IN: case L_CTOR_RANGE_FWD: case L_CTOR_RANGE_RA:
        case L_CTOR_GEN: case L_CTOR_COPY_BIGGER:
          exp = static_cast<int> (i & 0x3f); break;
        case L_ASSIGN_N: case L_CTOR_N_VAL: exp = 0x2a; break;
        case L_RESIZE: exp = i < c.size ? before[i] : 0; break;
        case L_RESIZE_VAL: exp = i < c.size ? before[i] : 0x2a; break;
        case L_RESERVE: exp = before[i]; break;
        case L_CTOR_N: exp = 0; break;
      }
      if (got != exp) { ok = false; bad = i; }
    }
    if (! ok)
      violate ("C12", "limits.wrong-contents", "%s: element %llu has an unexpected value (size %llu count %llu pos %llu)", lop_name (c.op), (unsigned long long) bad,
               (unsigned long long) c.size, (unsigned long long) c.count, (unsigned long long) c.pos);
  }

  // ---- case enumeration ---------------------------------------------------------------------
  // exhaustive for small max_size (uint8_t)
  void enumerate_exhaustive (std::vector<LCase>& out, uint64_t range_max)
  {
    for (uint64_t s = 0; s <= maxs; ++s)
      for (int op = 0; op < L__COUNT; ++op)
      {
        if (lop_is_ctor (op) && s != 0) continue;
        uint64_t cmax = lop_takes_size_type (op) ? type_max () : lop_is_range (op) ? range_max : op == L_CTOR_COPY_BIGGER ? maxs : 0;
        for (uint64_t c = 0; c <= cmax; ++c)
        {
          if (op == L_ASSIGN_RANGE_IN && c > maxs + 3) continue;
          uint64_t positions[3] = { 0, s / 2, s };
          int np = (op == L_EMPLACE || (op >= L_INSERT_N && op <= L_INSERT_RANGE_RA)) ? 3 : 1;
          for (int p = 0; p < np; ++p)
          {
            if (p && positions[p] == positions[p - 1]) continue;
            // keep the exhaustive grid affordable: middle positions only on a size/count lattice
            if (p == 1 && ((s % 5) || (c % 3))) continue;
            LCase k; k.op = op; k.size = s; k.count = c; k.pos = np == 1 ? (op >= L_APPEND_RANGE_IN ? s : 0) : positions[p];
            out.push_back (k);
          }
        }
      }
  }

  // boundary sampling for larger limits
  void enumerate_boundary (std::vector<LCase>& out, uint64_t seed)
  {
    Rng rng (seed);
    std::vector<uint64_t> sizes;
    uint64_t sc[] = { 0, 1, N ? N - 1 : 0, N, N + 1, maxs / 2, maxs - 2, maxs - 1, maxs };
    for (unsigned i = 0; i < sizeof sc / sizeof sc[0]; ++i) if (sc[i] <= maxs) sizes.push_back (sc[i]);
    for (int i = 0; i < 3; ++i) sizes.push_back (rng.next () % (maxs + 1));
    for (size_t si = 0; si < sizes.size (); ++si)
    {
      const uint64_t s = sizes[si];
      for (int op = 0; op < L__COUNT; ++op)
      {
        if (lop_is_ctor (op) && si != 0) continue;
        std::vector<uint64_t> counts;
        const uint64_t room = maxs - s;
        const bool absolute = ! (op >= L_INSERT_N && op <= L_APPEND_RANGE_RA);   // count is the new size / capacity
        const uint64_t edge = absolute ? maxs : room;
        uint64_t cc[] = { 0, 1, 2, edge ? edge - 1 : 0, edge, edge + 1, edge + 2, 2 * edge + 1, type_max () - 1, type_max (),
                          type_max () - s, type_max () - s + 1, type_max () / 2 + 1 };
        for (unsigned i = 0; i < sizeof cc / sizeof cc[0]; ++i) counts.push_back (cc[i]);
        if (lop_is_range (op))
        {
          // range lengths that do not fit size_type: type_max+1+k, 2*(type_max+1)+k
          uint64_t tm = type_max ();
          if (tm < (1ull << 40))
          {
            uint64_t rc[] = { tm + 1, tm + 2, tm + 1 + room, tm + 1 + room + 1, 2 * (tm + 1) + 3, tm + 1 + (edge ? edge - 1 : 0), tm + 45 };
            for (unsigned i = 0; i < sizeof rc / sizeof rc[0]; ++i) counts.push_back (rc[i]);
          }
        }
        for (size_t ci = 0; ci < counts.size (); ++ci)
        {
          uint64_t c = counts[ci];
          if (lop_takes_size_type (op) && c > type_max ()) continue;
          if (op == L_CTOR_COPY_BIGGER && c > maxs) continue;
          if ((op == L_PUSH_BACK || op == L_EMPLACE) && ci) continue;
          // single-pass ranges are consumed element by element: keep them affordable
          if ((op == L_INSERT_RANGE_IN || op == L_APPEND_RANGE_IN || op == L_ASSIGN_RANGE_IN || op == L_CTOR_RANGE_IN) && c > maxs + 70000) continue;
          if (! lop_is_range (op) && c > (1ull << 40) && ! lop_takes_size_type (op)) continue;
          if (lop_is_range (op) && c > (1ull << 34)) continue;
          if ((op == L_INSERT_RANGE_FWD || op == L_APPEND_RANGE_FWD || op == L_ASSIGN_RANGE_FWD || op == L_CTOR_RANGE_FWD) && c > (1ull << 27)) continue; // std::distance walks it
          uint64_t positions[3] = { 0, s / 2, s };
          int np = (op == L_EMPLACE || (op >= L_INSERT_N && op <= L_INSERT_RANGE_RA)) ? 3 : 1;
          for (int p = 0; p < np; ++p)
          {
            if (p && positions[p] == positions[p - 1]) continue;
            LCase k; k.op = op; k.size = s; k.count = c; k.pos = np == 1 ? 0 : positions[p];
            out.push_back (k);
          }
        }
      }
    }
  }

  void run_cases (const std::vector<LCase>& cases, uint64_t shard, uint64_t nshards)
  {
    run_forked (0, cases.size (), cases.size () / 3 + 1, [&] (uint64_t first, uint64_t last) {
      for (uint64_t i = first; i < last; ++i)
      {
        if (i % nshards != shard) continue;
        marker_set (i, 0, 1);
        { Internal in; G ().caseid = format ("%s:%llu", name, (unsigned long long) i); }
        run (cases[i]);
      }
      COV ().count ("length_errors", g_length_errors);
      COV ().count ("ok-ops", g_ok_ops);
      COV ().count ("largest-allocate-request", 0);
      std::fprintf (stdout, "{\"type\":\"note\",\"config\":\"%s\",\"largest_request\":%ld,\"max_size\":%llu}\n", name, g_max_request, (unsigned long long) maxs);
    }, 1200, LIM_GROUP == 4 ? 2000 : 40);
  }
};

template <typename L>
static void go (L& lim, bool exhaustive, uint64_t seed, uint64_t shard, uint64_t nshards, const char *only)
{
  if (only && std::strcmp (only, lim.name)) return;
  std::vector<LCase> cases;
  if (exhaustive) lim.enumerate_exhaustive (cases, 300);
  else lim.enumerate_boundary (cases, seed);
  std::fprintf (stdout, "{\"type\":\"plan\",\"config\":\"%s\",\"total_cases\":%zu,\"max_size\":%llu,\"exhaustive\":%s}\n", lim.name, cases.size (),
                (unsigned long long) lim.maxs, exhaustive ? "true" : "false");
  lim.run_cases (cases, shard, nshards);
}

int main (int argc, char **argv)
{
  setvbuf (stdout, 0, _IOLBF, 0);
  G ().engine = "limits";
  G ().monitors = ~0ull;
  const uint64_t seed = arg_u64 (argc, argv, "--seed", 1);
  const uint64_t shard = arg_u64 (argc, argv, "--shard", 0);
  const uint64_t nshards = arg_u64 (argc, argv, "--nshards", 1);
  const char *only = arg_str (argc, argv, "--only", 0);
  std::fprintf (stdout, "{\"type\":\"config\",\"engine\":\"limits\",\"group\":%d}\n", LIM_GROUP);
#if LIM_GROUP == 0
  { Lim<uint8_t, unsigned char, 0, 0> l ("u8/uchar/N0"); go (l, true, seed, shard, nshards, only); }
  { Lim<uint8_t, unsigned char, 4, 0> l ("u8/uchar/N4"); go (l, true, seed, shard, nshards, only); }
  { Lim<uint8_t, short, 4, 0> l ("u8/short/N4"); go (l, true, seed, shard, nshards, only); }
  { Lim<uint8_t, int, 0, 0> l ("u8/int/N0"); go (l, true, seed, shard, nshards, only); }
  { Lim<uint8_t, NT, 4, 0> l ("u8/NT/N4"); go (l, true, seed, shard, nshards, only); }
  { Lim<uint8_t, long long, 4, 0> l ("u8/llong/N4"); go (l, true, seed, shard, nshards, only); }
#elif LIM_GROUP == 1
  { Lim<uint16_t, unsigned char, 0, 0> l ("u16/uchar/N0"); go (l, false, seed, shard, nshards, only); }
  { Lim<uint16_t, int, 4, 0> l ("u16/int/N4"); go (l, false, seed, shard, nshards, only); }
  { Lim<uint16_t, NT, 4, 1000> l ("u16/NT/N4/cap1000"); go (l, false, seed, shard, nshards, only); }
  { Lim<uint16_t, short, 0, 300> l ("u16/short/N0/cap300"); go (l, false, seed, shard, nshards, only); }
#elif LIM_GROUP == 2
  { Lim<uint32_t, unsigned char, 4, 5000> l ("u32/uchar/N4/cap5000"); go (l, false, seed, shard, nshards, only); }
  { Lim<uint32_t, int, 0, 1000> l ("u32/int/N0/cap1000"); go (l, false, seed, shard, nshards, only); }
  { Lim<uint32_t, NT, 4, 600> l ("u32/NT/N4/cap600"); go (l, false, seed, shard, nshards, only); }
#elif LIM_GROUP == 3
  { Lim<std::size_t, unsigned char, 4, 3000> l ("u64/uchar/N4/cap3000"); go (l, false, seed, shard, nshards, only); }
  { Lim<std::size_t, int, 0, 1000> l ("u64/int/N0/cap1000"); go (l, false, seed, shard, nshards, only); }
  { Lim<std::size_t, NT, 4, 500> l ("u64/NT/N4/cap500"); go (l, false, seed, shard, nshards, only); }
#else
  // inline capacity larger than max_size(): allowed by the header's static_assert (N <= max of size_type)
  { Lim<uint8_t, int, 100, 0> l ("u8/int/N100>max63"); go (l, false, seed, shard, nshards, only); }
  { Lim<uint16_t, NT, 40, 30> l ("u16/NT/N40>cap30"); go (l, false, seed, shard, nshards, only); }
#endif
  std::fprintf (stdout, "{\"type\":\"done\",\"chunks\":1,\"deaths\":0}\n");
  return 0;
}
