// accept.cpp -- C13 acceptance probes (compile-only): minimal-requirement element archetypes per operation.
// Each archetype exists as a trivially copyable variant (ACC_TRIVIAL=1, special members defaulted) and as a
// non-trivial twin (ACC_TRIVIAL=0, user-provided special members) with exactly the same set of available
// operations.  The bulk-copy fast paths must add no requirement: whenever the non-trivial twin is accepted, the
// trivially copyable one must be accepted too.  ACC_VEC=1 instantiates std::vector instead (reference only).
//
//   -DACC_CALL=<k>      which operation (see the switch below)
//   -DACC_DEF -DACC_COPY -DACC_MOVE -DACC_CASSIGN -DACC_MASSIGN   which special members the archetype has
#include <gch/small_vector.hpp>
#include <vector>
#include <iterator>
#include <utility>

#ifndef ACC_TRIVIAL
#  define ACC_TRIVIAL 1
#endif
#ifndef ACC_N
#  define ACC_N 3
#endif

struct Arch
{
  int x;
  explicit Arch (int v) : x (v) { }
#if ACC_TRIVIAL
#  ifdef ACC_DEF
  Arch () = default;
#  endif
#  ifdef ACC_COPY
  Arch (const Arch&) = default;
#  else
  Arch (const Arch&) = delete;
#  endif
#  ifdef ACC_MOVE
  Arch (Arch&&) = default;
#  endif
#  ifdef ACC_CASSIGN
  Arch& operator= (const Arch&) = default;
#  else
  Arch& operator= (const Arch&) = delete;
#  endif
#  ifdef ACC_MASSIGN
  Arch& operator= (Arch&&) = default;
#  endif
#else
#  ifdef ACC_DEF
  Arch () : x (0) { }
#  endif
#  ifdef ACC_COPY
  Arch (const Arch& o) : x (o.x) { }
#  else
  Arch (const Arch&) = delete;
#  endif
#  ifdef ACC_MOVE
  Arch (Arch&& o) noexcept : x (o.x) { }
#  endif
#  ifdef ACC_CASSIGN
  Arch& operator= (const Arch& o) { x = o.x; return *this; }
#  else
  Arch& operator= (const Arch&) = delete;
#  endif
#  ifdef ACC_MASSIGN
  Arch& operator= (Arch&& o) noexcept { x = o.x; return *this; }
#  endif
  ~Arch () { x = -1; }
#endif
};

#if ACC_VEC
typedef std::vector<Arch> V;
#else
typedef gch::small_vector<Arch, ACC_N> V;
#endif

struct FwdIntIt
{
  typedef std::forward_iterator_tag iterator_category;
  typedef int value_type;
  typedef std::ptrdiff_t difference_type;
  typedef const int *pointer;
  typedef const int& reference;
  const int *p;
  FwdIntIt () : p (0) { }
  explicit FwdIntIt (const int *q) : p (q) { }
  const int& operator* () const { return *p; }
  FwdIntIt& operator++ () { ++p; return *this; }
  FwdIntIt operator++ (int) { FwdIntIt t (*this); ++p; return t; }
  friend bool operator== (const FwdIntIt& a, const FwdIntIt& b) { return a.p == b.p; }
  friend bool operator!= (const FwdIntIt& a, const FwdIntIt& b) { return a.p != b.p; }
};

int main ()
{
  static const int src[4] = { 1, 2, 3, 4 };
  (void) src;
#if ACC_CALL == 1        // V(n): DefaultInsertable
  V v (3); return static_cast<int> (v.size ());
#elif ACC_CALL == 2      // resize(n): DefaultInsertable + MoveInsertable
  V v; v.resize (5); return static_cast<int> (v.size ());
#elif ACC_CALL == 3      // push_back(const&): CopyInsertable
  V v; const Arch a (1); v.push_back (a); return static_cast<int> (v.size ());
#elif ACC_CALL == 4      // emplace_back / push_back(&&): MoveInsertable
  V v; v.emplace_back (1); v.push_back (Arch (2)); return static_cast<int> (v.size ());
#elif ACC_CALL == 5      // reserve / shrink_to_fit: MoveInsertable
  V v; v.reserve (10); v.shrink_to_fit (); return static_cast<int> (v.capacity ());
#elif ACC_CALL == 6      // range constructor from forward iterators: EmplaceConstructible only
  V v (FwdIntIt (src), FwdIntIt (src + 4)); return static_cast<int> (v.size ());
#elif ACC_CALL == 7      // V(n, x): CopyInsertable
  const Arch a (1); V v (3, a); return static_cast<int> (v.size ());
#elif ACC_CALL == 8      // copy construction: CopyInsertable
  V v; V w (v); return static_cast<int> (w.size ());
#elif ACC_CALL == 9      // V(n) then pop_back / clear: DefaultInsertable + Erasable
  V v (3); v.pop_back (); v.clear (); return static_cast<int> (v.size ());
#elif ACC_CALL == 10     // resize(n, x): CopyInsertable
  V v; const Arch a (1); v.resize (4, a); return static_cast<int> (v.size ());
#elif ACC_CALL == 11     // erase: MoveAssignable (+ MoveInsertable to fill)
  V v; v.emplace_back (1); v.emplace_back (2); v.erase (v.begin ()); return static_cast<int> (v.size ());
#elif ACC_CALL == 12     // insert(pos, &&) / emplace(pos): MoveInsertable + MoveAssignable
  V v; v.emplace_back (1); v.insert (v.begin (), Arch (2)); v.emplace (v.begin (), 3); return static_cast<int> (v.size ());
#elif ACC_CALL == 13     // assign(n, x) / insert(pos, n, x) / insert(pos, const&): CopyInsertable + CopyAssignable
  V v; const Arch a (1); v.assign (3, a); v.insert (v.begin (), 2, a); v.insert (v.begin (), a); return static_cast<int> (v.size ());
#elif ACC_CALL == 14     // move construction / move assignment of the container
  V v; v.emplace_back (1); V w (std::move (v)); v = std::move (w); return static_cast<int> (v.size ());
#elif ACC_CALL == 15     // range assign / insert / append from forward iterators over int
  V v; v.assign (FwdIntIt (src), FwdIntIt (src + 4)); v.insert (v.begin (), FwdIntIt (src), FwdIntIt (src + 2));
  return static_cast<int> (v.size ());
#elif ACC_CALL == 16     // swap
  V v, w; v.emplace_back (1); v.swap (w); return static_cast<int> (w.size ());
#elif ACC_CALL == 17     // V(n, generator-like): construct from ints through an input range
  V v; for (int i = 0; i < 3; ++i) v.emplace_back (i); return static_cast<int> (v.size ());
#elif ACC_CALL == 18     // copy assignment: CopyInsertable + CopyAssignable
  V v, w; v = w; return static_cast<int> (v.size ());
#else
#  error "unknown ACC_CALL"
#endif
}
