// cmp.cpp -- C16: comparison operators and non-member functions against std::vector, exhaustively
// over all pairs of sequences over {0,1,2} up to length 4.  C++11-compatible.
#include <svmon/core.hpp>
#include <gch/small_vector.hpp>
#include <vector>
#include <algorithm>
#include <iterator>
#if __cplusplus >= 202002L
#  include <compare>
#endif

using namespace svmon;

// element type with only == and < (weak-order fallback in C++20)
struct LtEq
{
  int v;
  LtEq () : v (0) { }
  LtEq (int x) : v (x) { }
  friend bool operator== (const LtEq& a, const LtEq& b) { return a.v == b.v; }
  friend bool operator<  (const LtEq& a, const LtEq& b) { return a.v < b.v; }
};
inline int val (const LtEq& x) { return x.v; }
inline int val (int x) { return x; }
inline int val (double x) { return static_cast<int> (x); }

#if __cplusplus >= 202002L && defined(__cpp_impl_three_way_comparison)
#  define HAVE_SHIP 1
struct Ship
{
  int v;
  Ship () : v (0) { }
  Ship (int x) : v (x) { }
  friend auto operator<=> (const Ship&, const Ship&) = default;
  friend bool operator== (const Ship&, const Ship&) = default;
};
inline int val (const Ship& x) { return x.v; }
// partially ordered element: <=> yields partial_ordering
struct Partial
{
  int v;
  Partial () : v (0) { }
  Partial (int x) : v (x) { }
  friend std::partial_ordering operator<=> (const Partial& a, const Partial& b) { return a.v <=> b.v; }
  friend bool operator== (const Partial& a, const Partial& b) { return a.v == b.v; }
};
inline int val (const Partial& x) { return x.v; }
#endif

// double-valued element where the code 2 stands for NaN: unordered elements (partial ordering in C++20)
#include <cmath>
struct DN
{
  double d;
  DN () : d (0) { }
  DN (int x) : d (x == 2 ? std::nan ("") : static_cast<double> (x)) { }
  friend bool operator== (const DN& a, const DN& b) { return a.d == b.d; }
#if defined(HAVE_SHIP)
  friend std::partial_ordering operator<=> (const DN& a, const DN& b) { return a.d <=> b.d; }
#else
  friend bool operator<  (const DN& a, const DN& b) { return a.d < b.d; }
#endif
};
inline int val (const DN& x) { return x.d != x.d ? 2 : static_cast<int> (x.d); }
template <typename T> struct has_unordered_values { static const bool value = false; };
template <> struct has_unordered_values<DN> { static const bool value = true; };

static std::vector<std::vector<int> > all_seqs (int maxlen, int alphabet)
{
  std::vector<std::vector<int> > r;
  r.push_back (std::vector<int> ());
  size_t begin = 0;
  for (int len = 1; len <= maxlen; ++len)
  {
    size_t end = r.size ();
    for (size_t i = begin; i < end; ++i)
      for (int a = 0; a < alphabet; ++a)
      {
        std::vector<int> s = r[i];
        s.push_back (a);
        r.push_back (s);
      }
    begin = end;
  }
  return r;
}

static mstring show (const std::vector<int>& s)
{
  mstring r = "[";
  for (size_t i = 0; i < s.size (); ++i) r += format (i ? ",%d" : "%d", s[i]);
  return r + "]";
}

static long g_pairs = 0, g_erase = 0, g_nonmember = 0;
static const char *g_tname = "?";

template <typename T, unsigned NA, unsigned NB>
static void compare_all (const std::vector<std::vector<int> >& seqs, bool heap_variants)
{
  typedef gch::small_vector<T, NA> VA;
  typedef gch::small_vector<T, NB> VB;
  for (size_t i = 0; i < seqs.size (); ++i)
  {
    std::vector<T> ma (seqs[i].begin (), seqs[i].end ());
    VA a (seqs[i].begin (), seqs[i].end ());
    if (heap_variants && (i % 3 == 1)) a.reserve (NA + 7);   // same contents, different representation
    for (size_t j = 0; j < seqs.size (); ++j)
    {
      std::vector<T> mb (seqs[j].begin (), seqs[j].end ());
      VB b (seqs[j].begin (), seqs[j].end ());
      if (heap_variants && (j % 4 == 2)) b.reserve (NB + 3);
      const VA& ca = a; const VB& cb = b;
      ++g_pairs;
      const bool eq = ca == cb, ne = ca != cb, lt = ca < cb, le = ca <= cb, gt = ca > cb, ge = ca >= cb;
      const bool meq = ma == mb, mne = ma != mb, mlt = ma < mb, mle = ma <= mb, mgt = ma > mb, mge = ma >= mb;
      bool ok = eq == meq && ne == mne && lt == mlt && le == mle && gt == mgt && ge == mge;
      // mutual consistency (total orders only: with unordered elements "not less" does not imply "greater or equal")
      if (! has_unordered_values<T>::value)
        ok = ok && (eq != ne) && (lt == ! ge) && (gt == ! le) && (le == (lt || eq)) && (ge == (gt || eq))
                && ((int (lt) + int (gt) + int (eq)) == 1);
      else
        ok = ok && (eq != ne) && ! (lt && gt) && ! (eq && (lt || gt));
#if defined(HAVE_SHIP)
      {
        auto c = ca <=> cb;
        auto m = ma <=> mb;     // std::vector's own three-way result (partial_ordering::unordered for NaN)
        ok = ok && ((c < 0) == (m < 0)) && ((c > 0) == (m > 0)) && ((c == 0) == (m == 0));
        ok = ok && ((c < 0) == lt) && ((c > 0) == gt);
        if (! has_unordered_values<T>::value) ok = ok && ((c == 0) == eq);
      }
#endif
      if (! ok)
      {
        G ().caseid = format ("%s/N%u,%u/%s/%s", g_tname, NA, NB, show (seqs[i]).c_str (), show (seqs[j]).c_str ());
        G ().opkey = format ("compare/%s", g_tname);
        violate ("C16", "compare.disagrees-with-vector", "%s N=(%u,%u) a=%s b=%s: small_vector ==:%d !=:%d <:%d <=:%d >:%d >=:%d  std::vector ==:%d !=:%d <:%d <=:%d >:%d >=:%d",
                 g_tname, NA, NB, show (seqs[i]).c_str (), show (seqs[j]).c_str (), eq, ne, lt, le, gt, ge, meq, mne, mlt, mle, mgt, mge);
      }
      if ((i * 131 + j) % 4099 == 0)
        COV ().sample (format ("%s N=(%u,%u) %s vs %s -> ==%d <%d", g_tname, NA, NB, show (seqs[i]).c_str (), show (seqs[j]).c_str (), eq, lt));
      COV ().tuple (format ("cmp|%s|N%u,%u|len%zu,%zu|%s|%s%s", g_tname, NA, NB, seqs[i].size (), seqs[j].size (),
                            meq ? "eq" : mlt ? "lt" : "gt", a.inlined () ? "inl" : "heap", b.inlined () ? "inl" : "heap"));
    }
  }
}

static bool pred_fn (int id, int v)
{
  switch (id & 7)
  {
    case 0: return v % 2 == 0;
    case 1: return v % 2 != 0;
    case 2: return true;
    case 3: return false;
    case 4: return v == 0;
    case 5: return v < 2;
    case 6: return v > 0;
    default: return v == 2;
  }
}

struct Pred
{
  int id;
  template <typename T> bool operator() (const T& x) const { return pred_fn (id, val (x)); }
};

template <typename T, unsigned N>
static void erase_all (const std::vector<std::vector<int> >& seqs)
{
  typedef gch::small_vector<T, N> V;
  for (size_t i = 0; i < seqs.size (); ++i)
  {
    for (int x = 0; x < 4; ++x)
    {
      V v (seqs[i].begin (), seqs[i].end ());
      std::vector<T> m (seqs[i].begin (), seqs[i].end ());
      const size_t before = m.size ();
      m.erase (std::remove (m.begin (), m.end (), T (x)), m.end ());
      typename V::size_type n = erase (v, T (x));
      ++g_erase;
      bool ok = static_cast<size_t> (n) == before - m.size () && v.size () == m.size ();
      for (size_t k = 0; ok && k < m.size (); ++k) ok = val (v[static_cast<typename V::size_type> (k)]) == val (m[k]);
      if (! ok)
      {
        G ().caseid = format ("%s/N%u/erase/%s/%d", g_tname, N, show (seqs[i]).c_str (), x);
        G ().opkey = format ("erase/%s", g_tname);
        violate ("C16", "erase.disagrees-with-model", "erase(v,%d) on %s returned %zu", x, show (seqs[i]).c_str (), static_cast<size_t> (n));
      }
      COV ().tuple (format ("erase|%s|N%u|len%zu|removed%zu", g_tname, N, seqs[i].size (), before - m.size ()));
    }
    for (int p = 0; p < 8; ++p)
    {
      V v (seqs[i].begin (), seqs[i].end ());
      std::vector<T> m (seqs[i].begin (), seqs[i].end ());
      const size_t before = m.size ();
      Pred pr; pr.id = p;
      m.erase (std::remove_if (m.begin (), m.end (), pr), m.end ());
      typename V::size_type n = erase_if (v, pr);
      ++g_erase;
      bool ok = static_cast<size_t> (n) == before - m.size () && v.size () == m.size ();
      for (size_t k = 0; ok && k < m.size (); ++k) ok = val (v[static_cast<typename V::size_type> (k)]) == val (m[k]);
      if (! ok)
      {
        G ().caseid = format ("%s/N%u/erase_if/%s/%d", g_tname, N, show (seqs[i]).c_str (), p);
        G ().opkey = format ("erase_if/%s", g_tname);
        violate ("C16", "erase_if.disagrees-with-model", "erase_if(v,pred%d) on %s returned %zu", p, show (seqs[i]).c_str (), static_cast<size_t> (n));
      }
      COV ().tuple (format ("erase_if|%s|N%u|len%zu|pred%d|removed%zu", g_tname, N, seqs[i].size (), p, before - m.size ()));
    }
  }
}

template <typename A, typename B>
static bool same_codes (const A& a, const B& b)
{
  if (a.size () != b.size ()) return false;
  typename A::const_iterator i = a.begin (); typename B::const_iterator j = b.begin ();
  for (; i != a.end (); ++i, ++j) if (val (*i) != val (*j)) return false;
  return true;
}

template <typename T, unsigned N>
static void nonmember_all (const std::vector<std::vector<int> >& seqs)
{
  typedef gch::small_vector<T, N> V;
  for (size_t i = 0; i < seqs.size (); i += 3)
    for (size_t j = 1; j < seqs.size (); j += 7)
    {
      V a (seqs[i].begin (), seqs[i].end ()), b (seqs[j].begin (), seqs[j].end ());
      if (i % 2) a.reserve (N + 5);
      const V ea (a), eb (b);
      const V& ca = a;
      ++g_nonmember;
      bool ok = gch::begin (a) == a.begin () && gch::end (a) == a.end () && gch::begin (ca) == ca.begin () && gch::end (ca) == ca.end ()
        && gch::cbegin (a) == a.cbegin () && gch::cend (a) == a.cend () && gch::rbegin (a) == a.rbegin () && gch::rend (a) == a.rend ()
        && gch::rbegin (ca) == ca.rbegin () && gch::rend (ca) == ca.rend ()
        && gch::crbegin (a) == a.crbegin () && gch::crend (a) == a.crend () && gch::size (a) == a.size ()
        && static_cast<std::size_t> (gch::ssize (a)) == a.size () && gch::ssize (a) >= 0 && gch::empty (a) == a.empty ()
        && gch::data (a) == a.data () && gch::data (ca) == ca.data ();
      using std::swap;
      swap (a, b);
      ok = ok && same_codes (a, eb) && same_codes (b, ea);
      a.swap (b);
      ok = ok && same_codes (a, ea) && same_codes (b, eb);
      // the non-member swap must leave the same STATE as the member swap (capacity, representation), for every pair of
      // preparations incl. empty containers that still own a heap buffer
      for (int prep = 0; prep < 6; ++prep)
      {
        V m1 (seqs[i].begin (), seqs[i].end ()), m2 (seqs[j].begin (), seqs[j].end ());
        V n1 (seqs[i].begin (), seqs[i].end ()), n2 (seqs[j].begin (), seqs[j].end ());
        if (prep & 1) { m1.reserve (N + 6); n1.reserve (N + 6); }
        if (prep & 2) { m2.reserve (N + 9); n2.reserve (N + 9); }
        if (prep >= 4) { m1.clear (); n1.clear (); if (prep == 5) { m2.clear (); n2.clear (); } }   // empty but allocated
        m1.swap (m2);
        swap (n1, n2);
        ++g_nonmember;
        ok = ok && same_codes (m1, n1) && same_codes (m2, n2) && m1.capacity () == n1.capacity () && m2.capacity () == n2.capacity ()
                && m1.inlined () == n1.inlined () && m2.inlined () == n2.inlined ();
      }
      if (! ok)
      {
        G ().caseid = format ("%s/N%u/nonmember/%s/%s", g_tname, N, show (seqs[i]).c_str (), show (seqs[j]).c_str ());
        G ().opkey = format ("nonmember/%s", g_tname);
        violate ("C16", "nonmember.disagrees-with-member", "non-member begin/end/size/ssize/empty/data/swap disagree with members on %s, %s", show (seqs[i]).c_str (), show (seqs[j]).c_str ());
      }
      COV ().tuple (format ("nonmember|%s|N%u|len%zu,%zu", g_tname, N, seqs[i].size (), seqs[j].size ()));
    }
}

template <typename T>
static void run_type (const char *tname, const std::vector<std::vector<int> >& seqs)
{
  g_tname = tname;
  compare_all<T, 0, 0> (seqs, false);
  compare_all<T, 0, 3> (seqs, true);
  compare_all<T, 3, 0> (seqs, false);
  compare_all<T, 2, 2> (seqs, true);
  compare_all<T, 2, 5> (seqs, false);
  compare_all<T, 5, 2> (seqs, true);
  erase_all<T, 0> (seqs);
  erase_all<T, 3> (seqs);
  nonmember_all<T, 0> (seqs);
  nonmember_all<T, 2> (seqs);
  COV ().evaluations = g_pairs + g_erase + g_nonmember;
}

int main (int argc, char **argv)
{
  setvbuf (stdout, 0, _IOLBF, 0);
  Globals& g = G ();
  g.engine = "cmp";
  g.monitors = ~0ull;
  const int maxlen = static_cast<int> (arg_u64 (argc, argv, "--maxlen", 4));
  const char *type = arg_str (argc, argv, "--type", "int");
  install_death_handlers ();
  std::vector<std::vector<int> > seqs = all_seqs (maxlen, 3);
  marker_desc (type, "cmp");
  std::fprintf (stdout, "{\"type\":\"config\",\"engine\":\"cmp\",\"std\":%ld,\"elem\":\"%s\",\"sequences\":%zu}\n", static_cast<long> (__cplusplus), type, seqs.size ());
  if (! std::strcmp (type, "int")) run_type<int> ("int", seqs);
  else if (! std::strcmp (type, "lteq")) run_type<LtEq> ("lteq", seqs);
  else if (! std::strcmp (type, "double")) run_type<double> ("double", seqs);
  else if (! std::strcmp (type, "nan")) run_type<DN> ("nan", seqs);
#if defined(HAVE_SHIP)
  else if (! std::strcmp (type, "ship")) run_type<Ship> ("ship", seqs);
  else if (! std::strcmp (type, "partial")) run_type<Partial> ("partial", seqs);
#endif
  else { std::fprintf (stdout, "{\"type\":\"skipped\",\"why\":\"element type not available under this standard\"}\n"); }
  emit_coverage ();
  std::fprintf (stdout, "{\"type\":\"done\",\"chunks\":1,\"deaths\":0}\n");
  return 0;
}
