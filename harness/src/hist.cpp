// hist.cpp -- history / sweep / fault engine for one (element type, allocator, N pair) configuration.
//
// Configuration macros (all optional):
//   SV_T       element type (int, TNx, TThrow, TMoveOnly, TMoveOnlyThrow, TCopyOnly, TSwapThrow)
//   SV_NA/NB   inline capacities of slot 0 / slots 1,2
//   SV_ALLOC   0 = std::allocator (+ operator new shim), 1 = LedgerAlloc
//   SV_POCCA SV_POCMA SV_POCS SV_AE SV_CONSTRUCT SV_SOCCC   LedgerAlloc traits
#ifndef SV_ALLOC
#  define SV_ALLOC 1
#endif
#if SV_ALLOC == 0
#  define SVMON_NEW_SHIM 1
#endif
#include <svmon/hist_engine.hpp>

#ifndef SV_T
#  define SV_T TNx
#endif
#ifndef SV_NA
#  define SV_NA 2
#endif
#ifndef SV_NB
#  define SV_NB 5
#endif
#ifndef SV_POCCA
#  define SV_POCCA 0
#endif
#ifndef SV_POCMA
#  define SV_POCMA 0
#endif
#ifndef SV_POCS
#  define SV_POCS 0
#endif
#ifndef SV_AE
#  define SV_AE 0
#endif
#ifndef SV_CONSTRUCT
#  define SV_CONSTRUCT 0
#endif
#ifndef SV_SOCCC
#  define SV_SOCCC 1
#endif
#ifndef SV_THROWDEF
#  define SV_THROWDEF 0
#endif
#ifndef SV_SIZET
#  define SV_SIZET std::size_t      // allocator size_type (narrow types drive the integer-promotion paths)
#endif

using namespace svmon;

typedef SV_T ElemT;
#if SV_ALLOC == 0
typedef std::allocator<ElemT> AllocT;
#elif SV_ALLOC == 2
typedef FancyLedgerAlloc<ElemT, ACfg<SV_POCCA, SV_POCMA, SV_POCS, SV_AE, SV_SIZET, 0, 0, 0, SV_SOCCC> > AllocT;
#else
typedef LedgerAlloc<ElemT, ACfg<SV_POCCA, SV_POCMA, SV_POCS, SV_AE, SV_SIZET, 0, SV_CONSTRUCT, SV_THROWDEF, SV_SOCCC> > AllocT;
#endif
typedef HistEngine<ElemT, AllocT, SV_NA, SV_NB> Engine;

#define STR2(x) #x
#define STR(x) STR2 (x)

// ---------------------------------------------------------------------------------------------
// Sweep enumeration: (target slot, size, provenance) x final op.  Static: produces symbolic ops.
struct Sweep
{
  Engine& e;
  int level;                     // 0 coarse, 1 medium, 2 full
  bool only_strong;              // fault/C05: only ops covered by the strong guarantee
  bool only_alias;               // C11: exhaustive aliasing
  bool only_range;               // C15
  bool only_binary;              // C07 / C09
  uint64_t idx;
  std::function<void (uint64_t, const mvector<Op>&)> cb;

  Sweep (Engine& en) : e (en), level (1), only_strong (false), only_alias (false), only_range (false), only_binary (false), idx (0) { }

  void emit (const mvector<Op>& prefix, const Op& fin)
  {
    if (cb)
    {
      mvector<Op> ops (prefix);
      ops.push_back (fin);
      cb (idx, ops);
    }
    ++idx;
  }

  mvector<int> sizes (int N) const
  {
    mvector<int> r;
    if (level >= 2) { for (int s = 0; s <= 2 * N + 4; ++s) r.push_back (s); return r; }
    int c[] = { 0, 1, N - 1, N, N + 1, N + 2, 2 * N + 1, 2 * N + 3 };
    for (unsigned i = 0; i < sizeof c / sizeof c[0]; ++i)
      if (c[i] >= 0 && std::find (r.begin (), r.end (), c[i]) == r.end ())
      {
        if (level == 0 && i >= 5 && i != 6) continue;
        r.push_back (c[i]);
      }
    return r;
  }

  mvector<int> provs () const
  {
    mvector<int> r;
    if (level >= 1) { for (int p = 0; p < HistBase::PR__COUNT; ++p) r.push_back (p); return r; }
    r.push_back (HistBase::PR_FRESH); r.push_back (HistBase::PR_RESERVED); r.push_back (HistBase::PR_SHRUNK);
    r.push_back (HistBase::PR_SLACK1);
    return r;
  }

  struct PosSpec { int prel, pos; };
  mvector<PosSpec> positions (int size) const
  {
    mvector<PosSpec> r;
    if (level >= 2 || size <= 3)
    {
      for (int p = 0; p <= size; ++p) { PosSpec s = { 0, p }; r.push_back (s); }
      return r;
    }
    PosSpec a = { 0, 0 }, b = { 0, 1 }, c = { 2, 0 }, d = { 1, -1 }, f = { 1, 0 };
    r.push_back (a); r.push_back (b); r.push_back (c); r.push_back (d); r.push_back (f);
    return r;
  }

  struct CntSpec { int crel, count; };
  mvector<CntSpec> counts_insert () const
  {
    static const CntSpec all[] = { { 0, 0 }, { 0, 1 }, { 0, 2 }, { 1, -1 }, { 1, 0 }, { 1, 1 }, { 2, -1 }, { 2, 0 }, { 2, 1 }, { 6, 1 }, { 0, 5 } };
    static const CntSpec few[] = { { 0, 0 }, { 0, 1 }, { 0, 2 }, { 1, 0 }, { 1, 1 }, { 2, 0 }, { 2, 1 }, { 6, 1 } };
    mvector<CntSpec> r;
    if (level >= 1) r.assign (all, all + sizeof all / sizeof all[0]);
    else r.assign (few, few + sizeof few / sizeof few[0]);
    return r;
  }
  mvector<CntSpec> counts_size () const
  {
    static const CntSpec all[] = { { 0, 0 }, { 0, 1 }, { 4, -1 }, { 4, 0 }, { 4, 1 }, { 5, -1 }, { 5, 0 }, { 5, 1 }, { 3, -1 }, { 3, 0 }, { 3, 1 }, { 6, 1 }, { 6, 3 } };
    static const CntSpec few[] = { { 0, 0 }, { 4, -1 }, { 4, 0 }, { 4, 1 }, { 5, 0 }, { 5, 1 }, { 3, 0 }, { 3, 1 }, { 6, 1 } };
    mvector<CntSpec> r;
    if (level >= 1) r.assign (all, all + sizeof all / sizeof all[0]);
    else r.assign (few, few + sizeof few / sizeof few[0]);
    return r;
  }

  mvector<int> itkinds () const
  {
    mvector<int> r;
    for (int k = 0; k < IT__COUNT; ++k)
    {
      if (! e.it_supported (k)) continue;
      if (level == 0 && (k == IT_BIDI || k == IT_RAND || k == IT_VEC || k == IT_SVIT || k == IT_FWD_INT || k == IT_RAND_VAL)) continue;
      r.push_back (k);
    }
    return r;
  }

  struct AliasSpec { int arel, alias; };
  mvector<AliasSpec> aliases (int size) const
  {
    mvector<AliasSpec> r;
    AliasSpec none = { 0, -1 };
    r.push_back (none);
    if (! e.feat.copyable || size == 0) return r;
    if (only_alias || level >= 2)
    {
      for (int i = 0; i < size; ++i) { AliasSpec a = { 0, i }; r.push_back (a); }
      return r;
    }
    AliasSpec a0 = { 0, 0 }, a1 = { 1, 0 }, a2 = { 2, -1 }, a3 = { 2, 0 };
    r.push_back (a0); r.push_back (a1); r.push_back (a2); r.push_back (a3);
    return r;
  }

  void run ()
  {
    idx = 0;
    for (int t = 0; t < 2; ++t)
    {
      if (t == 1 && SV_NA == SV_NB && ! only_binary) continue;
      const int N = static_cast<int> (e.info[t].N);
      mvector<int> szs = sizes (N), prs = provs ();
      for (size_t si = 0; si < szs.size (); ++si)
        for (size_t pi = 0; pi < prs.size (); ++pi)
        {
          const int size = szs[si], prov = prs[pi];
          if ((prov == HistBase::PR_STOLEN || prov == HistBase::PR_MOVED_FROM) && level == 0) continue;
          int next_val = 1;
          mvector<Op> prefix;
          const int helper = (t == 0) ? 1 : 2;
          e.recipe (prefix, t, size, prov, next_val, helper);
          final_ops (prefix, t, size, next_val);
        }
    }
  }

  void final_ops (const mvector<Op>& prefix, int t, int size, int next_val)
  {
    Op o; o.t = t; o.val = next_val + 100;
    const bool all = ! (only_strong || only_alias || only_range || only_binary);
    mvector<PosSpec> ps = positions (size);
    mvector<AliasSpec> as = aliases (size);
    mvector<CntSpec> ci = counts_insert (), cs = counts_size ();
    mvector<int> its = itkinds ();

    if (all || only_strong || only_alias)
    {
      // push_back / emplace_back
      for (size_t a = 0; a < as.size (); ++a)
      {
        Op x = o; x.alias = as[a].alias; x.arel = as[a].arel;
        const bool aliased = as[a].arel != 0 || as[a].alias >= 0;
        if (as[a].arel == 2) continue;
        if (e.feat.copyable) { x.kind = OP_PUSH_BACK_COPY; emit (prefix, x); }
        if (e.feat.copyable || ! aliased) { x.kind = OP_EMPLACE_BACK; emit (prefix, x); }
      }
      if (! only_alias) { Op x = o; x.kind = OP_PUSH_BACK_MOVE; emit (prefix, x); }
      // single insert / emplace
      for (size_t p = 0; p < ps.size (); ++p)
        for (size_t a = 0; a < as.size (); ++a)
        {
          Op x = o; x.pos = ps[p].pos; x.prel = ps[p].prel; x.alias = as[a].alias; x.arel = as[a].arel;
          if (only_strong && ! (ps[p].prel == 1 && ps[p].pos == 0) && ! (ps[p].prel == 0 && ps[p].pos == size)) continue;
          const bool aliased = as[a].arel != 0 || as[a].alias >= 0;
          if (e.feat.copyable) { x.kind = OP_INSERT_COPY; emit (prefix, x); }
          if (e.feat.copyable || ! aliased) { x.kind = OP_EMPLACE; emit (prefix, x); }
          if (! aliased && ! only_alias) { x.kind = OP_INSERT_MOVE; emit (prefix, x); }
        }
    }
    if ((all || only_alias) && e.feat.copyable)
    {
      for (size_t p = 0; p < ps.size (); ++p)
        for (size_t c = 0; c < ci.size (); ++c)
          for (size_t a = 0; a < as.size (); ++a)
          {
            Op x = o; x.kind = OP_INSERT_N; x.pos = ps[p].pos; x.prel = ps[p].prel; x.count = ci[c].count; x.crel = ci[c].crel;
            x.alias = as[a].alias; x.arel = as[a].arel;
            emit (prefix, x);
          }
      for (size_t c = 0; c < cs.size (); ++c)
        for (size_t a = 0; a < as.size (); ++a)
        {
          if (as[a].arel == 2) continue;
          Op x = o; x.kind = OP_RESIZE_VAL; x.count = cs[c].count; x.crel = cs[c].crel; x.alias = as[a].alias; x.arel = as[a].arel;
          emit (prefix, x);
        }
    }
    if (only_strong && e.feat.copyable)
      for (size_t c = 0; c < cs.size (); ++c)
      { Op x = o; x.kind = OP_RESIZE_VAL; x.count = cs[c].count; x.crel = cs[c].crel; emit (prefix, x); }
    if (all || only_range)
    {
      for (size_t p = 0; p < ps.size (); ++p)
        for (size_t c = 0; c < ci.size (); ++c)
          for (size_t k = 0; k < its.size (); ++k)
          {
            Op x = o; x.kind = OP_INSERT_RANGE; x.pos = ps[p].pos; x.prel = ps[p].prel; x.count = ci[c].count; x.crel = ci[c].crel; x.itk = its[k];
            emit (prefix, x);
          }
      if (e.feat.copyable && ! only_range)
        for (size_t p = 0; p < ps.size (); ++p)
          for (int c = 0; c <= 4; ++c)
          { Op x = o; x.kind = OP_INSERT_ILIST; x.pos = ps[p].pos; x.prel = ps[p].prel; x.count = c; emit (prefix, x); }
    }
    if (only_strong)
    {
      // insert of exactly one element at end() through the range / ilist overloads
      for (size_t k = 0; k < its.size (); ++k)
      { Op x = o; x.kind = OP_INSERT_RANGE; x.prel = 1; x.pos = 0; x.count = 1; x.itk = its[k]; emit (prefix, x); }
      if (e.feat.copyable) { Op x = o; x.kind = OP_INSERT_ILIST; x.prel = 1; x.pos = 0; x.count = 1; emit (prefix, x); }
      if (e.feat.copyable)
        for (size_t a = 0; a < as.size (); ++a)
        {
          if (as[a].arel == 2) continue;
          Op x = o; x.kind = OP_INSERT_N; x.prel = 1; x.pos = 0; x.count = 1; x.alias = as[a].alias; x.arel = as[a].arel; emit (prefix, x);
        }
    }
    if (all)
    {
      for (int p = 0; p < size; ++p)
      {
        if (level < 2 && size > 4 && p > 1 && p < size - 2 && p != size / 2) continue;
        Op x = o; x.kind = OP_ERASE; x.pos = p; emit (prefix, x);
        Op y = o; y.kind = OP_ERASE_RANGE; y.pos = p;
        y.count = 0; emit (prefix, y);
        y.count = 1; emit (prefix, y);
        y.crel = 1; y.count = 0; emit (prefix, y);
        y.crel = 1; y.count = -1; emit (prefix, y);
      }
      { Op x = o; x.kind = OP_POP_BACK; emit (prefix, x); }
      { Op x = o; x.kind = OP_CLEAR; emit (prefix, x); }
      { Op x = o; x.kind = OP_READ; emit (prefix, x); }
      { Op x = o; x.kind = OP_NM_ERASE; x.val = 3; emit (prefix, x); }
      for (int id = 0; id < 8; id += (level >= 1 ? 1 : 3)) { Op x = o; x.kind = OP_NM_ERASE_IF; x.val = id; emit (prefix, x); }
    }
    if (all || only_strong)
    {
      for (size_t c = 0; c < cs.size (); ++c)
      {
        Op x = o; x.count = cs[c].count; x.crel = cs[c].crel;
        if (e.feat.def_ctor) { x.kind = OP_RESIZE; emit (prefix, x); }
        x.kind = OP_RESERVE; emit (prefix, x);
      }
      { Op x = o; x.kind = OP_SHRINK; emit (prefix, x); }
    }
    if (all || only_range)
    {
      for (size_t c = 0; c < cs.size (); ++c)
      {
        Op x = o; x.count = cs[c].count; x.crel = cs[c].crel;
        if (e.feat.copyable && ! only_range) { x.kind = OP_ASSIGN_N; emit (prefix, x); }
        for (size_t k = 0; k < its.size (); ++k)
        {
          x.itk = its[k];
          x.kind = OP_ASSIGN_RANGE; emit (prefix, x);
          x.kind = OP_CTOR_RANGE; x.flag = 0; emit (prefix, x);
          if (level >= 1) { x.flag = 1; x.aid = 2; emit (prefix, x); x.flag = 0; x.aid = 1; }
        }
        if (! only_range || true)
        {
          x.itk = 0; x.kind = OP_CTOR_GEN; emit (prefix, x);
          x.itk = 1; emit (prefix, x);
        }
        if (all)
        {
          if (e.feat.def_ctor) { x.kind = OP_CTOR_N; x.flag = 0; emit (prefix, x); x.flag = 1; x.aid = 2; emit (prefix, x); x.flag = 0; x.aid = 1; }
          if (e.feat.copyable) { x.kind = OP_CTOR_N_VAL; x.flag = 0; emit (prefix, x); x.flag = 1; x.aid = 2; emit (prefix, x); x.flag = 0; x.aid = 1; }
        }
      }
      if (all && e.feat.copyable)
        for (int c = 0; c <= 4; ++c)
        {
          Op x = o; x.count = c;
          x.kind = OP_ASSIGN_ILIST; emit (prefix, x);
          x.kind = OP_OPASSIGN_ILIST; emit (prefix, x);
          x.kind = OP_CTOR_ILIST; emit (prefix, x);
          x.kind = OP_APPEND_ILIST; emit (prefix, x);
        }
      if (all) { Op x = o; x.kind = OP_CTOR_DEFAULT; emit (prefix, x); x.kind = OP_CTOR_ALLOC; x.aid = 2; emit (prefix, x); }
    }
    if (all || only_strong || only_range)
    {
      static const CntSpec ac[] = { { 0, 0 }, { 0, 1 }, { 0, 2 }, { 2, -1 }, { 2, 0 }, { 2, 1 }, { 6, 1 } };
      for (unsigned c = 0; c < sizeof ac / sizeof ac[0]; ++c)
        for (size_t k = 0; k < its.size (); ++k)
        { Op x = o; x.kind = OP_APPEND_RANGE; x.count = ac[c].count; x.crel = ac[c].crel; x.itk = its[k]; emit (prefix, x); }
      if (only_strong && e.feat.copyable)
        for (int c = 0; c <= 4; ++c) { Op x = o; x.kind = OP_APPEND_ILIST; x.count = c; emit (prefix, x); }
    }
    if (all || only_binary)
    {
      // self-referential calls: v = v, v.assign (v), v = std::move (v), v.swap (v), swap (v, v)
      for (int flag = 0; flag < 2; ++flag)
      {
        Op x = o; x.s = t; x.flag = flag;
        if (e.feat.copyable) { x.kind = OP_ASSIGN_COPY; emit (prefix, x); }
        x.kind = OP_ASSIGN_MOVE; emit (prefix, x);
        x.kind = OP_SWAP; emit (prefix, x);
      }
    }
    if (all || only_binary || only_strong)
      binary_ops (prefix, t, next_val + 200);
  }

  void binary_ops (const mvector<Op>& prefix, int t, int next_val)
  {
    const int Nt = static_cast<int> (e.info[t].N);
    // partners: different N always; same N only when t has a same-N sibling (slots 1, 2)
    int partners[2]; int np = 0;
    if (t == 0) partners[np++] = 1;
    else { partners[np++] = 2; partners[np++] = 0; }
    for (int pi = 0; pi < np; ++pi)
    {
      const int s = partners[pi];
      const int Ns = static_cast<int> (e.info[s].N);
      int cand[] = { 0, 1, Ns - 1, Ns, Ns + 1, Nt - 1, Nt, Nt + 1, 2 * Nt + 1 };
      mvector<int> ss;
      for (unsigned i = 0; i < sizeof cand / sizeof cand[0]; ++i)
        if (cand[i] >= 0 && std::find (ss.begin (), ss.end (), cand[i]) == ss.end ())
        {
          if (level == 0 && (i == 2 || i == 5 || i == 8)) continue;
          ss.push_back (cand[i]);
        }
      for (size_t si = 0; si < ss.size (); ++si)
        for (int sprov = 0; sprov < 4; ++sprov)
          for (int said = 1; said <= (e.feat.ledgered && ! e.feat.std_alloc ? 2 : 1); ++said)
          {
            // build the partner: allocator id `said`, then content
            mvector<Op> pre2 (prefix);
            Op b; b.t = s; b.kind = OP_CTOR_ALLOC; b.aid = said; pre2.push_back (b);
            const int ssize = ss[si];
            Op r; r.t = s; r.kind = OP_RESERVE;
            switch (sprov)
            {
              case 0: r.count = 0; break;                          // as tight as growth makes it
              case 1: r.count = std::max (ssize, Ns) + 3; break;   // heap with slack
              case 2: r.count = Nt; break;                         // capacity == destination's N (must not be stolen when heap)
              case 3: r.count = Nt + 1; break;                     // capacity just above destination's N
            }
            if (sprov >= 2 && (r.count < ssize)) continue;
            if (level == 0 && sprov == 1) continue;
            pre2.push_back (r);
            Op f; f.t = s; f.kind = OP_APPEND_RANGE; f.itk = IT_RAND_INT; f.count = ssize; f.val = next_val; pre2.push_back (f);
            Op o; o.t = t; o.s = s; o.val = next_val + 50;
            if (! only_strong)
            {
              for (int flag = 0; flag < 2; ++flag)
                for (int aid = 1; aid <= (flag && e.feat.ledgered && ! e.feat.std_alloc ? 2 : 1); ++aid)
                {
                  Op x = o; x.flag = flag; x.aid = aid;
                  if (e.feat.copyable) { x.kind = OP_CTOR_COPY; emit (pre2, x); }
                  x.kind = OP_CTOR_MOVE; emit (pre2, x);
                }
              for (int flag = 0; flag < 2; ++flag)
              {
                Op x = o; x.flag = flag;
                if (e.feat.copyable) { x.kind = OP_ASSIGN_COPY; emit (pre2, x); }
                x.kind = OP_ASSIGN_MOVE; emit (pre2, x);
                if (Ns == Nt) { x.kind = OP_SWAP; emit (pre2, x); }
              }
              { Op x = o; x.kind = OP_COMPARE; emit (pre2, x); }
            }
            if (! only_binary)
            {
              Op x = o;
              if (e.feat.copyable) { x.kind = OP_APPEND_COPY; emit (pre2, x); }
              x.kind = OP_APPEND_MOVE; emit (pre2, x);
            }
          }
    }
  }
};

// ---------------------------------------------------------------------------------------------
static mvector<Op> parse_ops (const char *s)
{
  mvector<Op> ops;
  while (s && *s)
  {
    Op o;
    if (op_decode (s, o)) ops.push_back (o);
    while (*s && *s != ',') ++s;
    if (*s == ',') ++s;
  }
  return ops;
}

static void print_ops (const char *tag, uint64_t idx, const mvector<Op>& ops)
{
  Internal in;
  mstring enc, desc;
  for (size_t i = 0; i < ops.size (); ++i)
  {
    if (i) { enc += ","; desc += "; "; }
    enc += op_encode (ops[i]); desc += op_describe (ops[i]);
  }
  std::fprintf (G ().out, "{\"type\":\"%s\",\"case\":%llu,\"ops\":\"%s\",\"desc\":\"%s\"}\n", tag,
                static_cast<unsigned long long> (idx), enc.c_str (), json_escape (desc).c_str ());
}

#ifdef SVMON_FUZZ
// ---------------------------------------------------------------------------------------------
// Coverage-guided driver (libFuzzer).  The input bytes feed the same generator the random mode uses
// (two bytes per draw), so every input is a state-directed call history; libFuzzer keeps the inputs
// that reach new edges of the header or of the monitors.  A violation prints the usual record and
// aborts, which makes libFuzzer store the input as an artifact (the replay).  Configuration comes
// from the environment because libFuzzer owns the command line:
//   SVMON_FUZZ_MONITORS (default all), SVMON_FUZZ_ALSO / SVMON_FUZZ_ALSO_PREFIX (retagging),
//   SVMON_FUZZ_FAULT 0 = plain histories, 1 = fault enumeration on the last op of each history,
//   2 = first input byte decides; SVMON_FUZZ_FMASK all|c05; SVMON_FUZZ_FOCUS; SVMON_FUZZ_TRACE.
namespace
{
  struct FuzzState
  {
    Engine *e; int fault; unsigned fmask; bool strong; long inputs, plain, faulted, ops;
  };
  FuzzState FZ;

  void fuzz_finish ()
  {
    Internal in;
    COV ().count ("fuzz-inputs", FZ.inputs);
    COV ().count ("fuzz-plain-histories", FZ.plain);
    COV ().count ("fuzz-fault-histories", FZ.faulted);
    emit_coverage ();
    std::fprintf (stdout, "{\"type\":\"done\",\"chunks\":1,\"deaths\":0,\"inputs\":%ld}\n", FZ.inputs);
    std::fflush (stdout);
  }

  const char *env_or (const char *name, const char *dflt) { const char *v = std::getenv (name); return v && *v ? v : dflt; }
}

extern "C" int LLVMFuzzerTestOneInput (const uint8_t *data, size_t size)
{
  Globals& g = G ();
  if (! FZ.e)
  {
    setvbuf (stdout, 0, _IOLBF, 0);
    g.engine = "hist";
    g.config = "T=" STR (SV_T) ",A=" STR (SV_ALLOC) ",NA=" STR (SV_NA) ",NB=" STR (SV_NB);
    g.monitors = parse_monitors (env_or ("SVMON_FUZZ_MONITORS", "all"));
    g.also_prop = std::getenv ("SVMON_FUZZ_ALSO");
    g.also_prefix = env_or ("SVMON_FUZZ_ALSO_PREFIX", "");
    g.verbose_trace = std::getenv ("SVMON_FUZZ_TRACE") != 0;
    FZ.e = new (std::malloc (sizeof (Engine))) Engine ();
    const char *focus = env_or ("SVMON_FUZZ_FOCUS", "general");
    if (! std::strcmp (focus, "alloc")) FZ.e->mode = MODE_ALLOC;
    else if (! std::strcmp (focus, "alias")) FZ.e->mode = MODE_ALIAS;
    else if (! std::strcmp (focus, "range")) FZ.e->mode = MODE_RANGE;
    else if (! std::strcmp (focus, "small")) FZ.e->mode = MODE_SMALL;
    else if (! std::strcmp (focus, "grow")) FZ.e->mode = MODE_GROW;
    FZ.fault = std::atoi (env_or ("SVMON_FUZZ_FAULT", "0"));
    FZ.fmask = TK_ALL; FZ.strong = false;
    if (! std::strcmp (env_or ("SVMON_FUZZ_FMASK", "all"), "c05"))
    {
      FZ.fmask = TK_ALLOC | TK_ELEM_CTOR;
      if (! std::is_copy_constructible<ElemT>::value) FZ.fmask &= ~static_cast<unsigned> (TK_MOVE_CTOR);
      FZ.strong = true;
    }
    std::fprintf (stdout, "{\"type\":\"config\",\"engine\":\"hist\",\"config\":\"%s\",\"T\":\"%s\",\"mode\":\"fuzz\",\"focus\":\"%s\",\"fault\":%d}\n",
                  g.config, FZ.e->feat.tname, focus, FZ.fault);
    std::atexit (fuzz_finish);
  }
  if (size < 4) return 0;
  Engine& e = *FZ.e;
  ++FZ.inputs;
  e.case_index = static_cast<uint64_t> (FZ.inputs);
  { Internal in; g.caseid = format ("fuzz:%ld", FZ.inputs); }
  bool fault = FZ.fault == 1 || (FZ.fault == 2 && (data[0] & 1));
  Rng rng (data + 1, size - 1);
  if (! fault)
  {
    ++FZ.plain;
    e.run_history (rng, 60);
  }
  else
  {
    ++FZ.faulted;
    mvector<Op> ops;
    int next_val = 1;
    e.reset_pool (); e.op_index = 0;
    Snap cur[HistBase::NSLOT];
    uint64_t saved = g.monitors; g.monitors = 0;
    for (int k = 0; k < 10 && (k < 1 || ! rng.exhausted ()); ++k)
    {
      e.snap_all (cur);
      Op op = e.gen_op (rng, cur, next_val);
      ops.push_back (op);
      e.exec (op);
    }
    e.finish_history ();
    g.monitors = saved;
    if (g.verbose_trace) print_ops ("case", static_cast<uint64_t> (FZ.inputs), ops);
    e.run_fault_case (ops, FZ.fmask, FZ.strong, false);
  }
  if (g.violations_total)
  {
    std::fflush (stdout);
    std::abort ();          // libFuzzer stores the input; bin/check.py turns the printed record into the verdict
  }
  return 0;
}

int hist_main (int argc, char **argv)
#else
int main (int argc, char **argv)
#endif
{
  setvbuf (stdout, 0, _IOLBF, 0);
  Globals& g = G ();
  g.engine = "hist";
  g.config = "T=" STR (SV_T) ",A=" STR (SV_ALLOC) ",NA=" STR (SV_NA) ",NB=" STR (SV_NB);
  const char *mode_s = arg_str (argc, argv, "--mode", "random");
  const char *focus = arg_str (argc, argv, "--focus", "general");
  const uint64_t seed = arg_u64 (argc, argv, "--seed", 1);
  const uint64_t ncases = arg_u64 (argc, argv, "--cases", 1000);
  const int hist_len = static_cast<int> (arg_u64 (argc, argv, "--len", 60));
  const uint64_t shard = arg_u64 (argc, argv, "--shard", 0);
  const uint64_t nshards = arg_u64 (argc, argv, "--nshards", 1);
  const int level = static_cast<int> (arg_u64 (argc, argv, "--level", 1));
  const bool pairs = arg_u64 (argc, argv, "--pairs", 0) != 0;
  const char *fmask_s = arg_str (argc, argv, "--fault-mask", "all");
  const char *only_case = arg_str (argc, argv, "--only-case", 0);
  const char *ops_s = arg_str (argc, argv, "--ops", 0);
  const long fk1 = static_cast<long> (arg_u64 (argc, argv, "--k1", 0));
  const long fk2 = static_cast<long> (arg_u64 (argc, argv, "--k2", 0));
  const char *sel = arg_str (argc, argv, "--select", "all");
  g.monitors = parse_monitors (arg_str (argc, argv, "--monitors", "all"));
  g.verbose_trace = arg_flag (argc, argv, "--trace");
  g.also_prop = arg_str (argc, argv, "--also", 0);
  g.also_prefix = arg_str (argc, argv, "--also-prefix", "");
  const bool nofork = arg_flag (argc, argv, "--nofork") || only_case || ops_s;

  Engine *eng = new (std::malloc (sizeof (Engine))) Engine ();
  Engine& e = *eng;
  if (! std::strcmp (focus, "alloc")) e.mode = MODE_ALLOC;
  else if (! std::strcmp (focus, "alias")) e.mode = MODE_ALIAS;
  else if (! std::strcmp (focus, "range")) e.mode = MODE_RANGE;
  else if (! std::strcmp (focus, "small")) e.mode = MODE_SMALL;
  else if (! std::strcmp (focus, "grow")) e.mode = MODE_GROW;

  unsigned fmask = TK_ALL;
  bool strong = false;
  if (! std::strcmp (fmask_s, "c05"))
  {
    fmask = TK_ALLOC | TK_ELEM_CTOR;
    // the statement excludes the move constructor of a type that is not copy-insertable
    if (! std::is_copy_constructible<ElemT>::value) fmask &= ~static_cast<unsigned> (TK_MOVE_CTOR);
    strong = true;
  }

  std::fprintf (stdout, "{\"type\":\"config\",\"engine\":\"hist\",\"config\":\"%s\",\"T\":\"%s\",\"mode\":\"%s\",\"focus\":\"%s\",\"seed\":%llu}\n",
                g.config, e.feat.tname, mode_s, focus, static_cast<unsigned long long> (seed));

  // explicit op list (replay)
  if (ops_s)
  {
    install_death_handlers ();
    mvector<Op> ops = parse_ops (ops_s);
    g.caseid = "ops";
    if (fk1 > 0) { e.run_fault_once (ops, fmask, strong, fk1, fk2, 0); }
    else e.run_ops (ops);
    emit_coverage ();
    return g.violations_total ? 1 : 0;
  }

  Sweep sw (e);
  sw.level = level;
  sw.only_strong = ! std::strcmp (sel, "strong");
  sw.only_alias = ! std::strcmp (sel, "alias");
  sw.only_range = ! std::strcmp (sel, "range");
  sw.only_binary = ! std::strcmp (sel, "binary");

  const bool is_random = ! std::strcmp (mode_s, "random");
  const bool is_sweep = ! std::strcmp (mode_s, "sweep");
  const bool is_fault = ! std::strcmp (mode_s, "fault");        // fault enumeration over sweep cases
  const bool is_rfault = ! std::strcmp (mode_s, "rfault");      // fault enumeration on the last op of random histories

  uint64_t total = ncases;
  if (is_sweep || is_fault) { sw.cb = nullptr; sw.run (); total = sw.idx; }
  std::fprintf (stdout, "{\"type\":\"plan\",\"total_cases\":%llu,\"shard\":%llu,\"nshards\":%llu}\n",
                static_cast<unsigned long long> (total), static_cast<unsigned long long> (shard), static_cast<unsigned long long> (nshards));

  uint64_t only = only_case ? std::strtoull (only_case, 0, 0) : ~0ull;

  auto run_range = [&] (uint64_t first, uint64_t last)
  {
    if (is_random || is_rfault)
    {
      for (uint64_t i = first; i < last; ++i)
      {
        if (i % nshards != shard) continue;
        if (only != ~0ull && i != only) continue;
        case_watchdog (is_random ? 30 : 120);
        e.case_index = i;
        { Internal in; g.caseid = format ("%s:%llu", mode_s, static_cast<unsigned long long> (i)); }
        uint64_t hs = mix64 (seed, i);
        if (is_random) e.run_random_history (hs, hist_len);
        else
        {
          // generate a short history without faults while recording the resolved ops, then enumerate faults on its last op
          Rng rng (hs);
          mvector<Op> ops;
          int next_val = 1;
          e.reset_pool (); e.op_index = 0;
          Snap cur[HistBase::NSLOT];
          int len = 2 + static_cast<int> (rng.below (static_cast<uint32_t> (hist_len)));
          uint64_t saved = g.monitors; g.monitors = 0;
          for (int k = 0; k < len; ++k)
          {
            e.snap_all (cur);
            Op op = e.gen_op (rng, cur, next_val);
            ops.push_back (op);
            e.exec (op);
          }
          e.finish_history ();
          g.monitors = saved;
          if (g.verbose_trace) print_ops ("case", i, ops);
          e.run_fault_case (ops, fmask, strong, pairs);
        }
      }
    }
    else
    {
      sw.cb = [&] (uint64_t idx, const mvector<Op>& ops)
      {
        if (idx < first || idx >= last || idx % nshards != shard) return;
        if (only != ~0ull && idx != only) return;
        case_watchdog (is_sweep ? 30 : 120);
        e.case_index = idx;
        { Internal in; g.caseid = format ("%s:%llu", mode_s, static_cast<unsigned long long> (idx)); }
        if (g.verbose_trace) print_ops ("case", idx, ops);
        if (is_sweep) e.run_ops (ops);
        else e.run_fault_case (ops, fmask, strong, pairs);
        if (idx % 997 == 0) { Internal in; mstring d; for (size_t k = 0; k < ops.size (); ++k) { d += op_describe (ops[k]); d += "; "; } COV ().sample (d); }
      };
      sw.run ();
    }
  };

  if (nofork)
  {
    install_death_handlers ();
    run_range (0, total);
    emit_coverage ();
  }
  else
  {
    uint64_t chunk = total / 4 + 1;
    RunStats st = run_forked (0, total, chunk, run_range, 900);
    std::fprintf (stdout, "{\"type\":\"done\",\"chunks\":%ld,\"deaths\":%ld}\n", st.chunks, st.deaths);
  }
  return 0;
}
