// gdbinf.cpp -- C20 inferior: uninstrumented -O0 -g program that walks random histories over
// small_vectors of several element types / inline capacities and stops at checkpoint() after every
// operation.  The gdb-side monitor (bin/gdbmon.py) formats the containers and iterators through the
// shipped pretty-printers and compares with the dump this program keeps in globals.
#include <gch/small_vector.hpp>
#include <string>
#include <cstdio>
#include <cstdlib>
#include <cstdint>
#include <memory>

struct P
{
  int    a;
  double b;
};

// stateful allocator: the natvis [allocator] item refers to m_alloc, which exists only without EBO
template <typename T>
struct StatefulAlloc
{
  typedef T value_type;
  int tag;
  StatefulAlloc () noexcept : tag (77) { }
  explicit StatefulAlloc (int t) noexcept : tag (t) { }
  template <typename U> StatefulAlloc (const StatefulAlloc<U>& o) noexcept : tag (o.tag) { }
  T *allocate (std::size_t n) { return static_cast<T *> (::operator new (n * sizeof (T))); }
  void deallocate (T *p, std::size_t) noexcept { ::operator delete (p); }
  template <typename U> bool operator== (const StatefulAlloc<U>& o) const noexcept { return tag == o.tag; }
  template <typename U> bool operator!= (const StatefulAlloc<U>& o) const noexcept { return tag != o.tag; }
};

typedef gch::small_vector<int, 0> VI0;
typedef gch::small_vector<int, 2> VI2;
typedef gch::small_vector<int, 4> VI4;
typedef gch::small_vector<std::string, 0> VS0;
typedef gch::small_vector<std::string, 2> VS2;
typedef gch::small_vector<P, 4> VP4;
typedef gch::small_vector<int, 3, StatefulAlloc<int> > VA3;
typedef gch::small_vector<long> VLD;     // default inline capacity

// ---- what the monitor reads ----------------------------------------------------------------
extern "C" {
volatile int      g_kind;          // which container was just modified (index into the table in gdbmon.py)
volatile unsigned g_step;
volatile std::size_t g_size, g_capacity;
volatile int      g_inlined;
volatile long     g_expect[64];    // element values (ints; hash for strings; a for P)
volatile int      g_it_index;      // index the iterator variables point to, -1 = none
const void *volatile g_data;       // data() of the container just modified
const char       *g_opname;
}
VI0 *g_p0; VI2 *g_p1; VI4 *g_p2; VS0 *g_p3; VS2 *g_p4; VP4 *g_p5; VA3 *g_p6; VLD *g_p7;
VI0::iterator g_it0; VI2::iterator g_it1; VI4::iterator g_it2; VS0::iterator g_it3; VS2::iterator g_it4; VP4::iterator g_it5;
VA3::iterator g_it6; VLD::iterator g_it7;
VI2::const_iterator g_cit1;
VI2::iterator g_it_null;           // value-initialised: must be reported non-dereferenceable

extern "C" __attribute__ ((noinline)) void checkpoint () { asm volatile ("" ::: "memory"); }

static uint64_t rng_state = 1;
static uint64_t rnd ()
{
  uint64_t z = (rng_state += 0x9E3779B97F4A7C15ull);
  z = (z ^ (z >> 30)) * 0xBF58476D1CE4E5B9ull;
  z = (z ^ (z >> 27)) * 0x94D049BB133111EBull;
  return z ^ (z >> 31);
}
static unsigned below (unsigned n) { return n ? static_cast<unsigned> (rnd () % n) : 0; }

static long enc (int x) { return x; }
static long enc (long x) { return x; }
static long enc (const std::string& s) { return static_cast<long> (s.size ()) * 1000 + (s.empty () ? 0 : s[0]); }
static long enc (const P& p) { return p.a; }

template <typename T> static T make (int v);
template <> int make<int> (int v) { return v; }
template <> long make<long> (int v) { return v * 1000003L; }
template <> std::string make<std::string> (int v)
{
  // short (SSO) and long strings
  return (v % 3 == 0) ? std::string (static_cast<std::size_t> (20 + v % 17), static_cast<char> ('a' + v % 26))
                      : std::string (static_cast<std::size_t> (1 + v % 9), static_cast<char> ('A' + v % 26));
}
template <> P make<P> (int v) { P p; p.a = v; p.b = v * 0.5; return p; }

template <typename V, typename It>
static void publish (int kind, V& v, It& it, const char *op)
{
  g_kind = kind;
  g_size = v.size (); g_capacity = v.capacity (); g_inlined = v.inlined ();
  for (std::size_t i = 0; i < v.size () && i < 64; ++i) g_expect[i] = enc (v[static_cast<typename V::size_type> (i)]);
  if (v.empty ()) { g_it_index = -1; it = v.end (); }
  else { g_it_index = static_cast<int> (below (static_cast<unsigned> (v.size ()))); it = v.begin () + g_it_index; }
  g_opname = op;
  g_data = v.data ();
  if constexpr (std::is_convertible<It, VI2::const_iterator>::value) { if (kind == 1) g_cit1 = it; }
  ++g_step;
  checkpoint ();
}

template <typename V, typename It>
static void step (int kind, V& v, It& it)
{
  typedef typename V::value_type T;
  typedef typename V::size_type S;
  const unsigned size = static_cast<unsigned> (v.size ());
  const int val = static_cast<int> (below (1000));
  const char *op = "?";
  switch (below (size > 40 ? 4 : 14))
  {
    case 0: op = "clear"; v.clear (); break;
    case 1: op = "erase(range)"; if (size) { unsigned a = below (size); v.erase (v.begin () + a, v.begin () + a + below (size - a + 1)); } break;
    case 2: op = "shrink_to_fit"; v.shrink_to_fit (); break;
    case 3: op = "pop_back"; if (size) v.pop_back (); break;
    case 4: op = "push_back"; v.push_back (make<T> (val)); break;
    case 5: op = "emplace_back"; v.emplace_back (make<T> (val)); break;
    case 6: op = "insert"; v.insert (v.begin () + below (size + 1), make<T> (val)); break;
    case 7: op = "insert(n)"; v.insert (v.begin () + below (size + 1), static_cast<S> (below (5)), make<T> (val)); break;
    case 8: op = "resize"; v.resize (static_cast<S> (below (12)), make<T> (val)); break;
    case 9: op = "reserve"; v.reserve (static_cast<S> (below (20))); break;
    case 10: op = "assign"; v.assign (static_cast<S> (below (8)), make<T> (val)); break;
    case 11: op = "erase"; if (size) v.erase (v.begin () + below (size)); break;
    case 12: { op = "move-assign"; V tmp; for (unsigned i = 0, n = below (9); i < n; ++i) tmp.push_back (make<T> (val + static_cast<int> (i))); v = std::move (tmp); break; }
    default: { op = "swap"; V tmp; for (unsigned i = 0, n = below (7); i < n; ++i) tmp.push_back (make<T> (val + static_cast<int> (i))); v.swap (tmp); break; }
  }
  publish (kind, v, it, op);
}

int main (int argc, char **argv)
{
  rng_state = argc > 1 ? std::strtoull (argv[1], 0, 0) : 1;
  const int steps = argc > 2 ? std::atoi (argv[2]) : 150;
  VI0 v0; VI2 v1; VI4 v2; VS0 v3; VS2 v4; VP4 v5; VA3 v6 (StatefulAlloc<int> (1234)); VLD v7;
  g_p0 = &v0; g_p1 = &v1; g_p2 = &v2; g_p3 = &v3; g_p4 = &v4; g_p5 = &v5; g_p6 = &v6; g_p7 = &v7;
  // odr-use inline_capacity_v so that the natvis expression has a symbol to resolve
  volatile unsigned sink = VI0::inline_capacity_v + VI2::inline_capacity_v + VI4::inline_capacity_v + VS0::inline_capacity_v
                           + VS2::inline_capacity_v + VP4::inline_capacity_v + VA3::inline_capacity_v + VLD::inline_capacity_v;
  const unsigned *volatile keep[] = { &VI0::inline_capacity_v, &VI2::inline_capacity_v, &VI4::inline_capacity_v, &VS0::inline_capacity_v,
                                      &VS2::inline_capacity_v, &VP4::inline_capacity_v, &VA3::inline_capacity_v, &VLD::inline_capacity_v };
  (void) sink; (void) keep;
  // the empty states first
  publish (0, v0, g_it0, "empty"); publish (1, v1, g_it1, "empty"); publish (2, v2, g_it2, "empty"); publish (3, v3, g_it3, "empty");
  publish (4, v4, g_it4, "empty"); publish (5, v5, g_it5, "empty"); publish (6, v6, g_it6, "empty"); publish (7, v7, g_it7, "empty");
  for (int i = 0; i < steps; ++i)
  {
    switch (below (8))
    {
      case 0: step (0, v0, g_it0); break;
      case 1: step (1, v1, g_it1); break;
      case 2: step (2, v2, g_it2); break;
      case 3: step (3, v3, g_it3); break;
      case 4: step (4, v4, g_it4); break;
      case 5: step (5, v5, g_it5); break;
      case 6: step (6, v6, g_it6); break;
      default: step (7, v7, g_it7); break;
    }
  }
  return 0;
}
