// svmon/iters.hpp -- monitored iterators and generator.
#ifndef SVMON_ITERS_HPP
#define SVMON_ITERS_HPP

#include "core.hpp"
#include <iterator>
#include <cstddef>

namespace svmon
{

  // Shared bookkeeping for one source range.
  struct RangeState
  {
    size_t len;
    size_t cursor;           // StreamIt only: position of the shared stream
    std::vector<unsigned char, MallocAlloc<unsigned char> > derefs;
    std::vector<unsigned char, MallocAlloc<unsigned char> > incs;
    long   total_derefs;
    long   total_incs;
    bool   violated;
    const char *kind;

    RangeState (size_t n, const char *k)
      : len (n), cursor (0), derefs (n + 1, 0), incs (n + 1, 0), total_derefs (0), total_incs (0),
        violated (false), kind (k) { }

    void bad (const char *monitor, const char *what, size_t pos)
    {
      violated = true;
      violate ("C15", monitor, "%s iterator: %s at position %zu of a range of length %zu", kind, what, pos, len);
    }
  };

  // -------------------------------------------------------------------------------------------
  // True single-pass iterator: all copies share one cursor, like std::istream_iterator.
  // Yields Elem by value.
  template <typename Elem>
  struct StreamIt
  {
    typedef std::input_iterator_tag iterator_category;
    typedef Elem                    value_type;
    typedef std::ptrdiff_t          difference_type;
    typedef const Elem             *pointer;
    typedef Elem                    reference;

    const Elem *base;
    RangeState *st;
    size_t      pos;      // the stream position this copy believes it is at
    bool        is_end;

    StreamIt () : base (0), st (0), pos (0), is_end (true) { }
    StreamIt (const Elem *b, RangeState *s, bool end) : base (b), st (s), pos (end ? s->len : 0), is_end (end) { }

    bool at_end () const { return is_end || st->cursor >= st->len; }

    Elem operator* () const
    {
      tick (TK_IT_DEREF);
      if (is_end || st->cursor >= st->len)
      {
        st->bad ("stream.deref-at-end", "dereferenced at/after last", st->cursor);
        return base[st->len];   // guard element (every source array carries one)
      }
      if (pos != st->cursor)
      {
        st->bad ("stream.stale-deref", "stale copy dereferenced (stream already advanced)", pos);
        return base[pos < st->len ? pos : 0];
      }
      ++st->total_derefs;
      if (++st->derefs[pos] > 1)
        st->bad ("stream.deref-twice", "position dereferenced more than once", pos);
      return base[pos];
    }

    StreamIt& operator++ ()
    {
      tick (TK_IT_INC);
      if (is_end || st->cursor >= st->len)
      {
        st->bad ("stream.inc-at-end", "incremented at/after last", st->cursor);
        return *this;
      }
      if (pos != st->cursor)
      {
        st->bad ("stream.stale-inc", "stale copy incremented (stream already advanced)", pos);
        pos = st->cursor;   // report, then behave like the live stream so that the caller's loop still terminates
      }
      if (st->derefs[pos] == 0 && ! st->violated)
        st->bad ("stream.skip", "position skipped without being read", pos);
      ++st->total_incs;
      ++st->incs[pos];
      ++st->cursor;
      pos = st->cursor;
      return *this;
    }

    struct Proxy { Elem v; Elem operator* () const { return v; } };
    Proxy operator++ (int)
    {
      Proxy p; p.v = **this;
      ++*this;
      return p;
    }

    friend bool operator== (const StreamIt& a, const StreamIt& b)
    {
      bool ae = a.at_end (), be = b.at_end ();
      return ae == be;
    }
    friend bool operator!= (const StreamIt& a, const StreamIt& b) { return ! (a == b); }
  };

  // -------------------------------------------------------------------------------------------
  // Multi-pass iterators with bounds monitors.  Cat selects the category; all yield const Elem&.
  template <typename Elem, typename Cat>
  struct MonIt
  {
    typedef Cat            iterator_category;
    typedef Elem           value_type;
    typedef std::ptrdiff_t difference_type;
    typedef const Elem    *pointer;
    typedef const Elem&    reference;

    const Elem *base;
    RangeState *st;
    std::ptrdiff_t pos;

    MonIt () : base (0), st (0), pos (0) { }
    MonIt (const Elem *b, RangeState *s, std::ptrdiff_t p) : base (b), st (s), pos (p) { }

    const Elem& operator* () const
    {
      tick (TK_IT_DEREF);
      if (pos < 0 || static_cast<size_t> (pos) >= st->len)
      {
        st->bad ("multipass.deref-out-of-range", "dereferenced at/after last", static_cast<size_t> (pos));
        return base[st->len];   // guard element (every source array carries one)
      }
      ++st->total_derefs;
      if (st->derefs[pos] < 250) ++st->derefs[pos];
      return base[pos];
    }
    const Elem *operator-> () const { return &**this; }

    MonIt& operator++ ()
    {
      tick (TK_IT_INC);
      if (static_cast<size_t> (pos) >= st->len)
        st->bad ("multipass.inc-past-end", "advanced beyond last", static_cast<size_t> (pos));
      else
      {
        ++st->total_incs;
        ++pos;
      }
      return *this;
    }
    MonIt operator++ (int) { MonIt t (*this); ++*this; return t; }

    MonIt& operator-- ()
    {
      tick (TK_IT_INC);
      if (pos <= 0) st->bad ("multipass.dec-before-begin", "decremented before first", 0);
      else --pos;
      return *this;
    }
    MonIt operator-- (int) { MonIt t (*this); --*this; return t; }

    MonIt& operator+= (std::ptrdiff_t n)
    {
      tick (TK_IT_INC);
      std::ptrdiff_t np = pos + n;
      if (np < 0 || static_cast<size_t> (np) > st->len)
        st->bad ("multipass.advance-out-of-range", "advanced outside [first, last]", static_cast<size_t> (np < 0 ? 0 : np));
      else pos = np;
      return *this;
    }
    MonIt& operator-= (std::ptrdiff_t n) { return *this += -n; }
    friend MonIt operator+ (MonIt a, std::ptrdiff_t n) { a += n; return a; }
    friend MonIt operator+ (std::ptrdiff_t n, MonIt a) { a += n; return a; }
    friend MonIt operator- (MonIt a, std::ptrdiff_t n) { a -= n; return a; }
    friend std::ptrdiff_t operator- (const MonIt& a, const MonIt& b) { return a.pos - b.pos; }
    const Elem& operator[] (std::ptrdiff_t n) const { return *(*this + n); }

    friend bool operator== (const MonIt& a, const MonIt& b) { return a.pos == b.pos; }
    friend bool operator!= (const MonIt& a, const MonIt& b) { return a.pos != b.pos; }
    friend bool operator<  (const MonIt& a, const MonIt& b) { return a.pos <  b.pos; }
    friend bool operator>  (const MonIt& a, const MonIt& b) { return a.pos >  b.pos; }
    friend bool operator<= (const MonIt& a, const MonIt& b) { return a.pos <= b.pos; }
    friend bool operator>= (const MonIt& a, const MonIt& b) { return a.pos >= b.pos; }
  };

  // -------------------------------------------------------------------------------------------
  // Generator functor: logs calls; yields base + index.
  struct GenState
  {
    long calls;
    int  base;
  };

  template <typename R>
  struct Gen
  {
    GenState *st;
    explicit Gen (GenState *s) : st (s) { }
    R operator() ()
    {
      tick (TK_GEN);
      int v = st->base + static_cast<int> (st->calls);
      ++st->calls;
      return R (v);
    }
  };

} // namespace svmon

#endif
