// svmon/registry.hpp -- element registry (object identity / lifetime monitor) and the Tracked
// element flavours that report to it.
#ifndef SVMON_REGISTRY_HPP
#define SVMON_REGISTRY_HPP

#include "core.hpp"
#include <unordered_map>
#include <utility>
#include <type_traits>

namespace svmon
{

  enum EvKind : unsigned char
  {
    EV_CTOR = 1, EV_DTOR = 2, EV_ASSIGN_TO = 3, EV_READ_FROM = 4, EV_MOVED_FROM = 5, EV_SWAP = 6
  };

  struct Ev
  {
    const void   *addr;
    unsigned      serial;
    unsigned char kind;
  };

  struct ElemRec
  {
    unsigned serial;
    bool     live;
    bool     moved_from;
  };

  static const int MOVED_VALUE = -777;

  struct Registry
  {
    typedef std::unordered_map<const void *, ElemRec, std::hash<const void *>,
                               std::equal_to<const void *>,
                               MallocAlloc<std::pair<const void *const, ElemRec> > > map_t;
    map_t    recs;
    std::vector<Ev, MallocAlloc<Ev> > events;   // events of the current epoch
    unsigned next_serial;
    long     live;
    long     max_live;
    long     constructions;
    long     destructions;
    long     assignments;
    long     reads;

    Registry () : next_serial (1), live (0), max_live (0), constructions (0), destructions (0),
                  assignments (0), reads (0) { }

    void begin_epoch () { events.clear (); }

    void log (const void *a, unsigned serial, EvKind k)
    {
      if (events.size () < 100000) { Ev e; e.addr = a; e.serial = serial; e.kind = k; events.push_back (e); }
    }

    unsigned on_ctor (const void *self)
    {
      Internal in;
      map_t::iterator it = recs.find (self);
      if (it != recs.end () && it->second.live)
      {
        violate ("C03", "registry.ctor-over-live",
                 "element constructed at %p which already holds live element #%u", self, it->second.serial);
        --live;
      }
      ElemRec r; r.serial = next_serial++; r.live = true; r.moved_from = false;
      recs[self] = r;
      ++live; ++constructions;
      if (live > max_live) max_live = live;
      log (self, r.serial, EV_CTOR);
      return r.serial;
    }

    void on_dtor (const void *self, unsigned serial)
    {
      Internal in;
      map_t::iterator it = recs.find (self);
      if (it == recs.end () || ! it->second.live)
      {
        violate ("C03", "registry.dtor-of-dead",
                 "destructor ran at %p (claimed serial #%u) where no live element exists", self, serial);
        ++destructions;
        return;
      }
      if (it->second.serial != serial)
        violate ("C03", "registry.dtor-serial-mismatch",
                 "destructor at %p: object says #%u, registry says #%u (object bytes were overwritten)",
                 self, serial, it->second.serial);
      log (self, it->second.serial, EV_DTOR);
      recs.erase (it);
      --live; ++destructions;
    }

    // `src` is used as the source of a copy (moved == false) or move (moved == true)
    void on_source (const void *src, bool moved)
    {
      Internal in;
      map_t::iterator it = recs.find (src);
      ++reads;
      if (it == recs.end () || ! it->second.live)
      {
        violate ("C03", "registry.read-dead",
                 "%s from %p which does not hold a live element", moved ? "move" : "copy", src);
        return;
      }
      if (moved) it->second.moved_from = true;
      log (src, it->second.serial, moved ? EV_MOVED_FROM : EV_READ_FROM);
    }

    void on_assign_target (const void *self)
    {
      Internal in;
      map_t::iterator it = recs.find (self);
      ++assignments;
      if (it == recs.end () || ! it->second.live)
      {
        violate ("C03", "registry.assign-to-dead",
                 "assignment to %p which does not hold a live element", self);
        return;
      }
      it->second.moved_from = false;
      log (self, it->second.serial, EV_ASSIGN_TO);
    }

    void on_swap (const void *a, const void *b)
    {
      Internal in;
      map_t::iterator ia = recs.find (a), ib = recs.find (b);
      if (ia == recs.end () || ! ia->second.live || ib == recs.end () || ! ib->second.live)
      {
        violate ("C03", "registry.swap-dead", "swap (%p, %p) involves storage without a live element", a, b);
        return;
      }
      log (a, ia->second.serial, EV_SWAP);
      log (b, ib->second.serial, EV_SWAP);
    }

    // a plain read (comparison, value_of) of an element
    void on_read (const void *p)
    {
      map_t::iterator it = recs.find (p);
      if (it == recs.end () || ! it->second.live)
      {
        Internal in;
        violate ("C03", "registry.read-dead", "read of %p which does not hold a live element", p);
      }
    }

    bool is_live (const void *p) const
    {
      map_t::const_iterator it = recs.find (p);
      return it != recs.end () && it->second.live;
    }

    const ElemRec *find (const void *p) const
    {
      map_t::const_iterator it = recs.find (p);
      return it == recs.end () ? 0 : &it->second;
    }

    // number of events in the current epoch that touched `addr`
    int events_at (const void *addr) const
    {
      int n = 0;
      for (size_t i = 0; i < events.size (); ++i)
        if (events[i].addr == addr) ++n;
      return n;
    }
  };

  inline Registry& REG ()
  {
    static Registry *r = 0;
    if (! r) { void *m = std::malloc (sizeof (Registry)); r = new (m) Registry (); }
    return *r;
  }

  // A source value type that element types are only *explicitly* constructible from and not
  // assignable from: drives the "not assignable -> destroy and append" paths.
  struct Val
  {
    int v;
  };

  // -------------------------------------------------------------------------------------------
  // Tracked flavours.  The common part is a macro because special members cannot be enabled
  // conditionally in C++11/17 without changing their triviality/noexcept signature.

#define SVMON_TRACKED_COMMON(Name)                                                               \
    int      value;                                                                              \
    unsigned serial;                                                                             \
    Name (int v) : value (v) { ::svmon::tick (::svmon::TK_CONV_CTOR); serial = ::svmon::REG ().on_ctor (this); } \
    explicit Name (::svmon::Val v) : value (v.v)                                                 \
    { ::svmon::tick (::svmon::TK_CONV_CTOR); serial = ::svmon::REG ().on_ctor (this); }          \
    ~Name () { ::svmon::REG ().on_dtor (this, serial); }                                         \
    friend bool operator== (const Name& a, const Name& b) { return a.value == b.value; }         \
    friend bool operator!= (const Name& a, const Name& b) { return a.value != b.value; }         \
    friend bool operator<  (const Name& a, const Name& b) { return a.value <  b.value; }         \
    friend bool operator>  (const Name& a, const Name& b) { return a.value >  b.value; }         \
    friend bool operator<= (const Name& a, const Name& b) { return a.value <= b.value; }         \
    friend bool operator>= (const Name& a, const Name& b) { return a.value >= b.value; }

#define SVMON_DEFAULT_CTOR(Name)                                                                 \
    Name () : value (0) { ::svmon::tick (::svmon::TK_DEF_CTOR); serial = ::svmon::REG ().on_ctor (this); }

#define SVMON_COPY_OPS(Name)                                                                     \
    Name (const Name& o) : value (0)                                                             \
    {                                                                                            \
      ::svmon::tick (::svmon::TK_COPY_CTOR);                                                     \
      ::svmon::REG ().on_source (&o, false);                                                     \
      value = o.value;                                                                           \
      serial = ::svmon::REG ().on_ctor (this);                                                   \
    }                                                                                            \
    Name& operator= (const Name& o)                                                              \
    {                                                                                            \
      ::svmon::tick (::svmon::TK_COPY_ASSIGN);                                                   \
      ::svmon::REG ().on_source (&o, false);                                                     \
      ::svmon::REG ().on_assign_target (this);                                                   \
      value = o.value;                                                                           \
      return *this;                                                                              \
    }

#define SVMON_MOVE_OPS(Name, NOEX, TICKCALL_CTOR, TICKCALL_ASSIGN)                               \
    Name (Name&& o) NOEX : value (0)                                                             \
    {                                                                                            \
      TICKCALL_CTOR;                                                                             \
      ::svmon::REG ().on_source (&o, true);                                                      \
      value = o.value;                                                                           \
      o.value = ::svmon::MOVED_VALUE;                                                            \
      serial = ::svmon::REG ().on_ctor (this);                                                   \
    }                                                                                            \
    Name& operator= (Name&& o) NOEX                                                              \
    {                                                                                            \
      TICKCALL_ASSIGN;                                                                           \
      if (this == &o) { ::svmon::REG ().on_assign_target (this); return *this; }                 \
      ::svmon::REG ().on_source (&o, true);                                                      \
      ::svmon::REG ().on_assign_target (this);                                                   \
      value = o.value;                                                                           \
      o.value = ::svmon::MOVED_VALUE;                                                            \
      return *this;                                                                              \
    }

#define SVMON_NO_COPY(Name)                                                                      \
    Name (const Name&) = delete;                                                                 \
    Name& operator= (const Name&) = delete;

  // 1. nothrow move, throwing copy, default constructible
  struct TNx
  {
    SVMON_TRACKED_COMMON (TNx)
    SVMON_DEFAULT_CTOR (TNx)
    SVMON_COPY_OPS (TNx)
    SVMON_MOVE_OPS (TNx, noexcept, (void) 0, (void) 0)
  };

  // 2. throwing move and copy, default constructible
  struct TThrow
  {
    SVMON_TRACKED_COMMON (TThrow)
    SVMON_DEFAULT_CTOR (TThrow)
    SVMON_COPY_OPS (TThrow)
    SVMON_MOVE_OPS (TThrow, noexcept (false), ::svmon::tick (::svmon::TK_MOVE_CTOR),
                    ::svmon::tick (::svmon::TK_MOVE_ASSIGN))
  };

  // 3. move-only, nothrow
  struct TMoveOnly
  {
    SVMON_TRACKED_COMMON (TMoveOnly)
    SVMON_DEFAULT_CTOR (TMoveOnly)
    SVMON_NO_COPY (TMoveOnly)
    SVMON_MOVE_OPS (TMoveOnly, noexcept, (void) 0, (void) 0)
  };

  // 4. move-only, throwing
  struct TMoveOnlyThrow
  {
    SVMON_TRACKED_COMMON (TMoveOnlyThrow)
    SVMON_DEFAULT_CTOR (TMoveOnlyThrow)
    SVMON_NO_COPY (TMoveOnlyThrow)
    SVMON_MOVE_OPS (TMoveOnlyThrow, noexcept (false), ::svmon::tick (::svmon::TK_MOVE_CTOR),
                    ::svmon::tick (::svmon::TK_MOVE_ASSIGN))
  };

  // 5. copy-only: no move operations declared (rvalues copy), no default constructor
  struct TCopyOnly
  {
    SVMON_TRACKED_COMMON (TCopyOnly)
    SVMON_COPY_OPS (TCopyOnly)
  };

  // 6. nothrow move but a custom ADL swap that may throw
  struct TSwapThrow
  {
    SVMON_TRACKED_COMMON (TSwapThrow)
    SVMON_DEFAULT_CTOR (TSwapThrow)
    SVMON_COPY_OPS (TSwapThrow)
    SVMON_MOVE_OPS (TSwapThrow, noexcept, (void) 0, (void) 0)
    friend void swap (TSwapThrow& a, TSwapThrow& b)
    {
      ::svmon::tick (::svmon::TK_SWAP);
      ::svmon::REG ().on_swap (&a, &b);
      int t = a.value; a.value = b.value; b.value = t;
    }
  };

  // 7. nothrow move constructor but throwing move assignment (and throwing copies)
#define SVMON_MOVE_CTOR_NX_ASSIGN_THROW(Name)                                                    \
    Name (Name&& o) noexcept : value (0)                                                         \
    {                                                                                            \
      ::svmon::REG ().on_source (&o, true);                                                      \
      value = o.value;                                                                           \
      o.value = ::svmon::MOVED_VALUE;                                                            \
      serial = ::svmon::REG ().on_ctor (this);                                                   \
    }                                                                                            \
    Name& operator= (Name&& o) noexcept (false)                                                  \
    {                                                                                            \
      ::svmon::tick (::svmon::TK_MOVE_ASSIGN);                                                   \
      if (this == &o) { ::svmon::REG ().on_assign_target (this); return *this; }                 \
      ::svmon::REG ().on_source (&o, true);                                                      \
      ::svmon::REG ().on_assign_target (this);                                                   \
      value = o.value;                                                                           \
      o.value = ::svmon::MOVED_VALUE;                                                            \
      return *this;                                                                              \
    }
  struct TAssignThrow
  {
    SVMON_TRACKED_COMMON (TAssignThrow)
    SVMON_DEFAULT_CTOR (TAssignThrow)
    SVMON_COPY_OPS (TAssignThrow)
    SVMON_MOVE_CTOR_NX_ASSIGN_THROW (TAssignThrow)
  };

  // 8. over-aligned (64) and large (sizeof 64): inline buffer and allocator blocks must honour the alignment
  struct alignas (64) TAlign
  {
    SVMON_TRACKED_COMMON (TAlign)
    SVMON_DEFAULT_CTOR (TAlign)
    SVMON_COPY_OPS (TAlign)
    SVMON_MOVE_OPS (TAlign, noexcept, (void) 0, (void) 0)
  };

  template <typename T> struct is_tracked : std::false_type { };
  template <> struct is_tracked<TAlign> : std::true_type { };
  template <> struct is_tracked<TAssignThrow> : std::true_type { };
  template <> struct is_tracked<TNx> : std::true_type { };
  template <> struct is_tracked<TThrow> : std::true_type { };
  template <> struct is_tracked<TMoveOnly> : std::true_type { };
  template <> struct is_tracked<TMoveOnlyThrow> : std::true_type { };
  template <> struct is_tracked<TCopyOnly> : std::true_type { };
  template <> struct is_tracked<TSwapThrow> : std::true_type { };

  template <typename T> struct flavour_name { static const char *get () { return "other"; } };
  template <> struct flavour_name<int> { static const char *get () { return "int"; } };
  template <> struct flavour_name<TNx> { static const char *get () { return "TNx"; } };
  template <> struct flavour_name<TThrow> { static const char *get () { return "TThrow"; } };
  template <> struct flavour_name<TMoveOnly> { static const char *get () { return "TMoveOnly"; } };
  template <> struct flavour_name<TMoveOnlyThrow> { static const char *get () { return "TMoveOnlyThrow"; } };
  template <> struct flavour_name<TCopyOnly> { static const char *get () { return "TCopyOnly"; } };
  template <> struct flavour_name<TSwapThrow> { static const char *get () { return "TSwapThrow"; } };
  template <> struct flavour_name<TAssignThrow> { static const char *get () { return "TAssignThrow"; } };
  template <> struct flavour_name<TAlign> { static const char *get () { return "TAlign"; } };

  // value_of: the model value of an element
  inline int value_of (int x) { return x; }
  template <typename T>
  inline typename std::enable_if<is_tracked<T>::value, int>::type value_of (const T& x)
  {
    REG ().on_read (&x);
    return x.value;
  }
  template <typename T>
  inline typename std::enable_if<is_tracked<T>::value, unsigned>::type serial_of (const T& x) { return x.serial; }
  inline unsigned serial_of (int) { return 0; }

} // namespace svmon

#endif
