// svmon/hist_base.hpp -- non-template part of the history engine: ops, generation, model,
// property monitors that work on snapshots.
#ifndef SVMON_HIST_BASE_HPP
#define SVMON_HIST_BASE_HPP

#include "core.hpp"
#include "registry.hpp"
#include "alloc.hpp"
#include "iters.hpp"
#include "probe.hpp"
#include <algorithm>

namespace svmon
{

  enum OpKind : int
  {
    OP_PUSH_BACK_COPY = 0, OP_PUSH_BACK_MOVE, OP_EMPLACE_BACK,
    OP_INSERT_COPY, OP_INSERT_MOVE, OP_EMPLACE, OP_INSERT_N, OP_INSERT_RANGE, OP_INSERT_ILIST,
    OP_ERASE, OP_ERASE_RANGE, OP_POP_BACK, OP_CLEAR,
    OP_RESIZE, OP_RESIZE_VAL, OP_RESERVE, OP_SHRINK,
    OP_ASSIGN_N, OP_ASSIGN_RANGE, OP_ASSIGN_ILIST, OP_OPASSIGN_ILIST,
    OP_APPEND_RANGE, OP_APPEND_ILIST,
    OP_READ, OP_NM_ERASE, OP_NM_ERASE_IF,
    OP_CTOR_DEFAULT, OP_CTOR_ALLOC, OP_CTOR_N, OP_CTOR_N_VAL, OP_CTOR_GEN, OP_CTOR_RANGE, OP_CTOR_ILIST,
    OP_CTOR_COPY, OP_CTOR_MOVE, OP_ASSIGN_COPY, OP_ASSIGN_MOVE, OP_SWAP, OP_APPEND_COPY, OP_APPEND_MOVE,
    OP_COMPARE,
    OP__COUNT
  };

  inline const char *op_name (int k)
  {
    static const char *n[] = {
      "push_back(const&)", "push_back(&&)", "emplace_back",
      "insert(pos,const&)", "insert(pos,&&)", "emplace", "insert(pos,n,x)", "insert(pos,range)", "insert(pos,ilist)",
      "erase(pos)", "erase(first,last)", "pop_back", "clear",
      "resize(n)", "resize(n,x)", "reserve", "shrink_to_fit",
      "assign(n,x)", "assign(range)", "assign(ilist)", "operator=(ilist)",
      "append(range)", "append(ilist)",
      "read", "erase(v,x)", "erase_if(v,p)",
      "ctor()", "ctor(alloc)", "ctor(n)", "ctor(n,x)", "ctor(n,gen)", "ctor(range)", "ctor(ilist)",
      "ctor(copy)", "ctor(move)", "assign(copy)", "assign(move)", "swap", "append(const sv&)", "append(sv&&)",
      "compare" };
    return (k >= 0 && k < OP__COUNT) ? n[k] : "?";
  }

  inline bool op_is_binary (int k) { return k >= OP_CTOR_COPY && k <= OP_COMPARE; }
  inline bool op_is_ctor (int k) { return k >= OP_CTOR_DEFAULT && k <= OP_CTOR_MOVE; }
  inline bool op_has_range (int k) { return k == OP_INSERT_RANGE || k == OP_ASSIGN_RANGE || k == OP_APPEND_RANGE || k == OP_CTOR_RANGE; }

  enum ItKind : int
  {
    IT_STREAM_INT = 0, IT_STREAM_VAL, IT_FWD, IT_BIDI, IT_RAND, IT_FWD_INT, IT_RAND_INT, IT_PTR, IT_VEC,
    IT_MOVE_PTR, IT_SVIT, IT_FWD_VAL, IT_RAND_VAL, IT_PTR_VAL, IT__COUNT
  };
  inline const char *it_name (int k)
  {
    static const char *n[] = { "input<int>", "input<Val>", "forward<T>", "bidi<T>", "random<T>", "forward<int>",
                               "random<int>", "T*", "vector<T>::it", "move_iterator<T*>", "small_vector<T>::it", "forward<Val>", "random<Val>", "Val*" };
    return (k >= 0 && k < IT__COUNT) ? n[k] : "?";
  }
  inline bool it_is_stream (int k) { return k == IT_STREAM_INT || k == IT_STREAM_VAL; }

  struct Op
  {
    int kind, t, s, pos, count, val, itk, alias, aid, flag;
    // symbolic arguments (sweep): resolved against the target's state just before execution
    int crel;   // count relative to: 0 absolute, 1 tail (size-pos), 2 free (cap-size), 3 cap, 4 size, 5 N, 6 2*cap
    int prel;   // pos relative to: 0 absolute, 1 size (pos is a delta <= 0), 2 size/2
    int arel;   // alias relative to: 0 absolute, 1 size-1 (+delta), 2 pos (+delta)
    Op () : kind (0), t (0), s (0), pos (0), count (0), val (0), itk (0), alias (-1), aid (1), flag (0),
            crel (0), prel (0), arel (0) { }
  };

  inline mstring op_encode (const Op& o)
  {
    return format ("%d:%d:%d:%d:%d:%d:%d:%d:%d:%d:%d:%d:%d", o.kind, o.t, o.s, o.pos, o.count, o.val, o.itk, o.alias, o.aid, o.flag, o.crel, o.prel, o.arel);
  }
  inline bool op_decode (const char *s, Op& o)
  {
    o.crel = o.prel = o.arel = 0;
    return std::sscanf (s, "%d:%d:%d:%d:%d:%d:%d:%d:%d:%d:%d:%d:%d", &o.kind, &o.t, &o.s, &o.pos, &o.count, &o.val, &o.itk, &o.alias, &o.aid, &o.flag, &o.crel, &o.prel, &o.arel) >= 10;
  }
  inline mstring op_describe (const Op& o)
  {
    mstring r = format ("v%d.%s", o.t, op_name (o.kind));
    if (op_is_binary (o.kind)) r += format (" src=v%d", o.s);
    r += format (" pos=%d count=%d val=%d", o.pos, o.count, o.val);
    if (op_has_range (o.kind)) r += format (" it=%s", it_name (o.itk));
    if (o.alias >= 0) r += format (" alias=v%d[%d]", o.t, o.alias);
    r += format (" aid=%d flag=%d", o.aid, o.flag);
    return r;
  }

  struct OpResult
  {
    Outcome out;
    long    ret_off;      // returned iterator offset (or -1)
    long    ret_count;    // returned count (or -1)
    bool    ret_self_ok;  // returned reference is *this / back()
    bool    cmp_ok;
    bool    have_stream;
    bool    stream_consumed_ok;
    long    stream_len, stream_derefs, stream_incs;
    long    gen_calls;
    bool    noexcept_declared;   // the executed operation is declared noexcept for this config
    OpResult () : out (OUT_SKIPPED), ret_off (-1), ret_count (-1), ret_self_ok (true), cmp_ok (true),
                  have_stream (false), stream_consumed_ok (true), stream_len (0), stream_derefs (0),
                  stream_incs (0), gen_calls (-1), noexcept_declared (false) { }
  };

  struct SlotInfo
  {
    unsigned     N;
    bool         live;
    mvector<int> model;
    int          exp_aid;     // expected get_allocator() id (C07)
    SlotInfo () : N (0), live (false), exp_aid (1) { }
  };

  struct Features
  {
    bool tracked, copyable, def_ctor, nothrow_move, from_val;
    bool std_alloc, ledgered, pocca, pocma, pocs, always_equal, mark_soccc, has_construct;
    const char *tname;
  };

  enum Mode { MODE_GENERAL = 0, MODE_ALLOC, MODE_ALIAS, MODE_RANGE, MODE_SMALL, MODE_GROW };

  // ---------------------------------------------------------------------------------------------
  struct HistBase
  {
    static const int NSLOT = 3;
    SlotInfo info[NSLOT];
    Snap     pre[NSLOT], post[NSLOT];
    Features feat;
    int      mode;
    int      max_size_soft;     // generation keeps sizes below this
    bool     in_fault_run;      // the op being executed has a fault armed
    bool     strong_check;      // C05 semantics for this fault run
    long     hist_allocs_base;
    uint64_t case_index;
    int      op_index;

    HistBase () : mode (MODE_GENERAL), max_size_soft (40), in_fault_run (false), strong_check (false),
                  hist_allocs_base (0), case_index (0), op_index (0) { }
    virtual ~HistBase () { }

    // templated parts
    virtual void dispatch (const Op& op, OpResult& r) = 0;
    virtual void snap_all (Snap *out) = 0;
    virtual void probe_all (const char *tag) = 0;
    virtual void reset_pool () = 0;         // destroy everything, default-construct all slots
    virtual void destroy_all () = 0;        // destroy all containers (end of history)
    virtual void revive (int slot) = 0;     // default-construct a dead slot
    virtual void followup (int slot) = 0;   // C06 reuse script on a live slot
    virtual void read_check (int slot) = 0; // C01: read the container five ways, compare with model

    // -----------------------------------------------------------------------------------------
    bool interchangeable_assign (const Snap& a, const Snap& b) const
    { return feat.std_alloc || feat.always_equal || feat.pocma || a.aid == b.aid; }
    bool interchangeable_swap (const Snap& a, const Snap& b) const
    { return feat.std_alloc || feat.always_equal || feat.pocs || a.aid == b.aid; }

    mstring state_class (const Snap& s) const
    {
      const char *repr = s.inlined ? "inl" : "heap";
      const char *sz = s.size == 0 ? "empty" : s.size < s.N ? "<N" : s.size == s.N ? "=N" : s.size == s.N + 1 ? "=N+1" : ">N";
      const char *slack = s.size == s.cap ? "full" : s.size + 1 == s.cap ? "slack1" : "slack";
      return format ("%s/%s/%s", repr, sz, slack);
    }

    static const char *rel (long a, long b) { return a < b ? "<" : a == b ? "=" : ">"; }

    // -----------------------------------------------------------------------------------------
    // Model semantics (std::vector<int>) -- applied after a normal return.
    void apply_model (const Op& op, const OpResult& r)
    {
      mvector<int>& m = info[op.t].model;
      mvector<int>& ms = info[op.s].model;
      const int val = (op.alias >= 0 && static_cast<size_t> (op.alias) < pre[op.t].values.size ())
                        ? pre[op.t].values[op.alias] : op.val;
      (void) r;
      switch (op.kind)
      {
        case OP_PUSH_BACK_COPY: case OP_PUSH_BACK_MOVE: case OP_EMPLACE_BACK: m.push_back (val); break;
        case OP_INSERT_COPY: case OP_INSERT_MOVE: case OP_EMPLACE: m.insert (m.begin () + op.pos, val); break;
        case OP_INSERT_N: m.insert (m.begin () + op.pos, static_cast<size_t> (op.count), val); break;
        case OP_INSERT_RANGE: case OP_INSERT_ILIST:
          for (int i = 0; i < op.count; ++i) m.insert (m.begin () + op.pos + i, op.val + i);
          break;
        case OP_ERASE: m.erase (m.begin () + op.pos); break;
        case OP_ERASE_RANGE: m.erase (m.begin () + op.pos, m.begin () + op.pos + op.count); break;
        case OP_POP_BACK: m.pop_back (); break;
        case OP_CLEAR: m.clear (); break;
        case OP_RESIZE: m.resize (static_cast<size_t> (op.count)); break;
        case OP_RESIZE_VAL: m.resize (static_cast<size_t> (op.count), val); break;
        case OP_RESERVE: case OP_SHRINK: case OP_READ: case OP_COMPARE: break;
        case OP_ASSIGN_N: case OP_CTOR_N_VAL: m.assign (static_cast<size_t> (op.count), op.val); break;
        case OP_ASSIGN_RANGE: case OP_ASSIGN_ILIST: case OP_OPASSIGN_ILIST: case OP_CTOR_RANGE: case OP_CTOR_ILIST:
        case OP_CTOR_GEN:
          m.clear ();
          for (int i = 0; i < op.count; ++i) m.push_back (op.val + i);
          break;
        case OP_APPEND_RANGE: case OP_APPEND_ILIST:
          for (int i = 0; i < op.count; ++i) m.push_back (op.val + i);
          break;
        case OP_NM_ERASE: m.erase (std::remove (m.begin (), m.end (), op.val), m.end ()); break;
        case OP_NM_ERASE_IF:
        {
          mvector<int> k;
          for (size_t i = 0; i < m.size (); ++i) if (! pred (op.val, m[i])) k.push_back (m[i]);
          m.swap (k);
          break;
        }
        case OP_CTOR_DEFAULT: case OP_CTOR_ALLOC: m.clear (); break;
        case OP_CTOR_N: m.assign (static_cast<size_t> (op.count), 0); break;
        case OP_CTOR_COPY: case OP_ASSIGN_COPY: if (op.t != op.s) m = ms; break;
        case OP_CTOR_MOVE: case OP_ASSIGN_MOVE: m = mvector<int> (pre[op.s].values.begin (), pre[op.s].values.end ()); break;
        case OP_SWAP: m.swap (ms); break;
        case OP_APPEND_COPY: case OP_APPEND_MOVE:
          m.insert (m.end (), pre[op.s].values.begin (), pre[op.s].values.end ());
          break;
      }
    }

    static bool pred (int id, int v)
    {
      switch (id & 7)
      {
        case 0: return v % 2 == 0;
        case 1: return v % 2 != 0;
        case 2: return true;
        case 3: return false;
        case 4: return v % 3 == 0;
        case 5: return v < 5;
        case 6: return v > 3;
        default: return v % 4 == 1;
      }
    }

    void resync (int slot)
    {
      info[slot].model.assign (post[slot].values.begin (), post[slot].values.end ());
    }

    // C07: expected allocator id after the op
    void apply_alloc_model (const Op& op)
    {
      if (! feat.ledgered) return;
      int& at = info[op.t].exp_aid;
      int& as = info[op.s].exp_aid;
      switch (op.kind)
      {
        case OP_CTOR_DEFAULT: at = 1; break;
        case OP_CTOR_ALLOC: at = op.aid; break;
        case OP_CTOR_N: case OP_CTOR_N_VAL: case OP_CTOR_GEN: case OP_CTOR_RANGE: case OP_CTOR_ILIST:
          at = op.flag ? op.aid : 1; break;
        case OP_CTOR_COPY: at = op.flag ? op.aid : (feat.mark_soccc ? (pre[op.s].aid ^ SOCCC_MARK) : pre[op.s].aid); break;
        case OP_CTOR_MOVE: at = op.flag ? op.aid : pre[op.s].aid; break;
        case OP_ASSIGN_COPY: if (feat.pocca && op.t != op.s) at = pre[op.s].aid; break;
        case OP_ASSIGN_MOVE: if (feat.pocma) at = pre[op.s].aid; break;
        case OP_SWAP: if (feat.pocs) { int a = pre[op.t].aid, b = pre[op.s].aid; at = b; as = a; } break;
        default: break;
      }
    }

    // -----------------------------------------------------------------------------------------
    bool is_growing_op (int k) const
    {
      switch (k)
      {
        case OP_PUSH_BACK_COPY: case OP_PUSH_BACK_MOVE: case OP_EMPLACE_BACK: case OP_INSERT_COPY: case OP_INSERT_MOVE:
        case OP_EMPLACE: case OP_INSERT_N: case OP_INSERT_RANGE: case OP_INSERT_ILIST: case OP_RESIZE: case OP_RESIZE_VAL:
        case OP_ASSIGN_N: case OP_ASSIGN_RANGE: case OP_ASSIGN_ILIST: case OP_OPASSIGN_ILIST: case OP_APPEND_RANGE:
        case OP_APPEND_ILIST: case OP_APPEND_COPY: case OP_APPEND_MOVE:
          return true;
      }
      return false;
    }

    // first index whose element may legitimately be touched by a fitting call; -1: no prefix claim
    long first_modified (const Op& op) const
    {
      switch (op.kind)
      {
        case OP_PUSH_BACK_COPY: case OP_PUSH_BACK_MOVE: case OP_EMPLACE_BACK: case OP_APPEND_RANGE: case OP_APPEND_ILIST:
        case OP_APPEND_COPY: case OP_APPEND_MOVE:
          return static_cast<long> (pre[op.t].size);
        case OP_INSERT_COPY: case OP_INSERT_MOVE: case OP_EMPLACE: case OP_INSERT_N: case OP_INSERT_RANGE: case OP_INSERT_ILIST:
          return op.pos;
        case OP_RESIZE: case OP_RESIZE_VAL:
          return static_cast<long> (std::min<size_t> (pre[op.t].size, static_cast<size_t> (op.count)));
        default: return -1;
      }
    }

    // Quiescent checks on post[]: registry (C03) and ledger (C04) agree with the containers.
    void quiescent ()
    {
      Internal in;
      // ---- C03: registry vs containers
      if (want (3) && feat.tracked)
      {
        long expect = 0;
        for (int i = 0; i < NSLOT; ++i)
        {
          if (! info[i].live) continue;
          expect += static_cast<long> (post[i].size);
          for (size_t k = 0; k < post[i].size; ++k)
          {
            const ElemRec *rec = REG ().find (post[i].addr (k));
            if (! rec || ! rec->live)
            { violate ("C03", "quiescent.element-not-live", "v%d[%zu] at %p is not a live element", i, k, post[i].addr (k)); break; }
            if (rec->serial != post[i].serials[k])
            { violate ("C03", "quiescent.serial-mismatch", "v%d[%zu] object serial #%u but registry has #%u", i, k, post[i].serials[k], rec->serial); break; }
          }
        }
        if (REG ().live != expect)
          violate ("C03", "quiescent.live-set", "%ld live elements registered but containers hold %ld (leaked temporary, element alive beyond size(), or element destroyed but counted)", REG ().live, expect);
      }

      // ---- C04: ledger vs containers; no-allocate rule
      if (want (4) && feat.ledgered)
      {
        long heap = 0;
        for (int i = 0; i < NSLOT; ++i)
        {
          if (! info[i].live || post[i].inlined) continue;
          ++heap;
          const Block *b = LEDGER ().find_live (post[i].data);
          if (! b)
            violate ("C04", "quiescent.buffer-not-live-block", "v%d is not inlined but data() %p is not a live block", i, (const void *) post[i].data);
          else
          {
            if (b->n * b->elem_size != post[i].cap * post[i].esz)
              violate ("C04", "quiescent.block-size", "v%d block has %zu bytes, capacity() says %zu", i, b->n * b->elem_size, post[i].cap * post[i].esz);
            if (! feat.std_alloc && ! feat.always_equal && b->alloc_id != post[i].aid)
              violate ("C04", "quiescent.block-owner", "v%d buffer allocated by id %d but get_allocator() is id %d", i, b->alloc_id, post[i].aid);
          }
        }
        if (LEDGER ().live != heap)
          violate ("C04", "quiescent.live-blocks", "%ld live blocks but %ld non-inlined containers (leak or dangling buffer)", LEDGER ().live, heap);
      }
    }

    // -----------------------------------------------------------------------------------------
    // Post-operation monitors.  pre[]/post[] are filled; models already updated.
    void monitors (const Op& op, const OpResult& r)
    {
      Internal in;
      Globals& g = G ();
      const Snap& p0 = pre[op.t];
      const Snap& p1 = post[op.t];
      const bool normal = r.out == OUT_NORMAL;
      Coverage& cov = COV ();

      // ---- C01: values, sizes, return values
      if (mon (1) || mon (11) || mon (13) || mon (15))
      {
        for (int i = 0; i < NSLOT; ++i)
        {
          if (! info[i].live) continue;
          const mvector<int>& m = info[i].model;
          bool same = post[i].values.size () == m.size () && std::equal (m.begin (), m.end (), post[i].values.begin ());
          if (! same)
          {
            const char *prop = (op.alias >= 0 && mon (11)) ? "C11" : (op_has_range (op.kind) && mon (15) && ! mon (1)) ? "C15" : "C01";
            violate (prop, "model.contents", "v%d contents differ from std::vector model: got %s expected %s",
                     i, show (post[i].values).c_str (), show (m).c_str ());
            resync (i);
          }
        }
        if (normal)
        {
          long exp_off = -1;
          switch (op.kind)
          {
            case OP_INSERT_COPY: case OP_INSERT_MOVE: case OP_EMPLACE: case OP_INSERT_N: case OP_INSERT_RANGE:
            case OP_INSERT_ILIST: case OP_ERASE: case OP_ERASE_RANGE:
              exp_off = op.pos; break;
          }
          if (exp_off >= 0 && r.ret_off != exp_off)
            violate ("C01", "model.returned-iterator", "returned iterator offset %ld, std::vector returns %ld", r.ret_off, exp_off);
          if (! r.ret_self_ok)
            violate ("C01", "model.returned-reference", "returned reference does not designate the expected object");
          if (op.kind == OP_NM_ERASE || op.kind == OP_NM_ERASE_IF)
          {
            long exp = static_cast<long> (p0.size) - static_cast<long> (info[op.t].model.size ());
            if (r.ret_count != exp)
              violate ("C16", "model.erase-count", "non-member erase returned %ld, expected %ld", r.ret_count, exp);
          }
          if (! r.cmp_ok)
            violate ("C16", "model.comparison", "comparison operators disagree with std::vector on v%d vs v%d", op.t, op.s);
        }
        else if (r.out == OUT_LENGTH || r.out == OUT_BADALLOC || r.out == OUT_OTHER || (r.out == OUT_RANGE && op.kind != OP_READ))
          violate ("C01", "model.unexpected-exception", "valid call threw %s", outcome_name (r.out));
      }

      quiescent ();

      // ---- C04: no-allocate rule
      if (mon (4) && feat.ledgered)
      {
        if (normal)
        {
          bool fits = p1.size <= (op_is_ctor (op.kind) ? p0.N : p0.cap);
          if (op.kind == OP_SWAP) fits = fits && post[op.s].size <= pre[op.s].cap;
          bool exempt = op.kind == OP_SHRINK
            || (op.kind == OP_ASSIGN_COPY && feat.pocca && ! feat.always_equal && p0.aid != pre[op.s].aid)
            || (op.kind == OP_ASSIGN_MOVE && feat.pocma && ! feat.always_equal && p0.aid != pre[op.s].aid)
            || (op.kind == OP_SWAP && ! interchangeable_swap (p0, pre[op.s]))
            || (op.kind == OP_INSERT_RANGE && it_is_stream (op.itk) && static_cast<size_t> (op.pos) != p0.size)
            || op.kind == OP_RESERVE;
          if (op.kind == OP_RESERVE && static_cast<size_t> (op.count) <= p0.cap) exempt = false;
          if (op.kind == OP_RESERVE && static_cast<size_t> (op.count) > p0.cap) fits = false;
          if (fits && ! exempt)
          {
            cov.count ("c04.noalloc-rule-checked");
            if (g.window_allocs > 0)
              violate ("C04", "noalloc.fitting-op-allocated", "result (size %zu) fits the capacity held before the call (%zu) but allocate() was called %ld time(s)", p1.size, op_is_ctor (op.kind) ? size_t (p0.N) : p0.cap, g.window_allocs);
          }
          else if (exempt && fits) cov.count ("c04.exempt");
        }
        if (mode == MODE_SMALL && LEDGER ().allocs != hist_allocs_base)
        {
          violate ("C04", "noalloc.small-history-touched-allocator", "history never exceeded inline capacity yet allocate() was called");
          hist_allocs_base = LEDGER ().allocs;
        }
      }

      // ---- C07: allocator propagation
      if (mon (7) && feat.ledgered && ! feat.always_equal)
      {
        for (int i = 0; i < NSLOT; ++i)
        {
          if (! info[i].live) continue;
          if (post[i].aid != info[i].exp_aid)
          {
            violate ("C07", "propagation.get_allocator", "v%d get_allocator() id %d, expected %d", i, post[i].aid, info[i].exp_aid);
            info[i].exp_aid = post[i].aid;
          }
          if (! post[i].inlined)
          {
            const Block *b = LEDGER ().find_live (post[i].data);
            if (b && b->alloc_id != post[i].aid)
              violate ("C07", "propagation.buffer-owner", "v%d buffer was allocated by id %d but the container's allocator is id %d", i, b->alloc_id, post[i].aid);
          }
        }
        if (normal && (op.kind == OP_CTOR_COPY || op.kind == OP_CTOR_MOVE || op.kind == OP_ASSIGN_COPY || op.kind == OP_ASSIGN_MOVE || op.kind == OP_SWAP))
          cov.tuple (format ("c07|%s|flag%d|ids%s|%s|%s", op_name (op.kind), op.flag, p0.aid == pre[op.s].aid ? "eq" : "ne",
                             state_class (p0).c_str (), state_class (pre[op.s]).c_str ()));
      }

      // ---- C09: stealing
      if (mon (9) && normal && op.t != op.s
          && (op.kind == OP_CTOR_MOVE || op.kind == OP_ASSIGN_MOVE || op.kind == OP_SWAP))
      {
        const Snap& s0 = pre[op.s];
        const Snap& s1 = post[op.s];
        if (op.kind != OP_SWAP)
        {
          bool inter = op.kind == OP_CTOR_MOVE
                         ? (! op.flag || feat.std_alloc || feat.always_equal || op.aid == s0.aid)
                         : interchangeable_assign (p0, s0);
          bool permitted = ! s0.inlined && s0.cap > p0.N && inter;
          cov.tuple (format ("c09|%s|flag%d|N%s|%s|src:%s|srccap%sN", op_name (op.kind), op.flag, rel (s0.N, p0.N),
                             permitted ? "steal" : "elementwise", state_class (s0).c_str (), rel (long (s0.cap), long (p0.N))));
          if (permitted)
          {
            cov.count ("c09.steals");
            check_transfer (op, s0, p1, "move");
            if (! (s1.size == 0 && s1.inlined))
              violate ("C09", "steal.source-not-clean", "stolen-from source has size %zu, inlined=%d", s1.size, int (s1.inlined));
            if (g.window_allocs)
              violate ("C09", "steal.allocated", "a permitted steal called allocate() %ld time(s)", g.window_allocs);
          }
          else
          {
            cov.count ("c09.elementwise");
            // element-wise transfer is mandatory here: the source's buffer (inline, too small, or owned by an
            // allocator that may not be exchanged) must not become the destination's buffer
            if (s0.data != 0 && p1.data == s0.data && (s0.size > 0 || ! s0.inlined))
              violate ("C09", "steal.took-unstealable-buffer", "destination data() is the source's old buffer although stealing is not permitted (source inlined=%d capacity=%zu, destination N=%u, interchangeable=%d)",
                       int (s0.inlined), s0.cap, p0.N, int (inter));
          }
        }
        else if (interchangeable_swap (p0, s0))
        {
          cov.tuple (format ("c09|swap|%s|%s", state_class (p0).c_str (), state_class (s0).c_str ()));
          if (! p0.inlined && ! s0.inlined)
          {
            cov.count ("c09.swap-both-heap");
            check_transfer (op, s0, p1, "swap");
            check_transfer (op, p0, s1, "swap");
            if (feat.tracked && ! REG ().events.empty ())
              violate ("C09", "steal.swap-element-events", "swap of two heap buffers touched %zu element(s)", REG ().events.size ());
          }
          else if (! s0.inlined) { cov.count ("c09.swap-one-heap"); check_transfer (op, s0, p1, "swap"); }
          else if (! p0.inlined) { cov.count ("c09.swap-one-heap"); check_transfer (op, p0, s1, "swap"); }
          if (g.window_allocs)
            violate ("C09", "steal.allocated", "swap between interchangeable allocators called allocate() %ld time(s)", g.window_allocs);
        }
      }

      // ---- C10: no reallocation while capacity suffices
      if (mon (10) && normal)
      {
        bool same_alloc_copy = op.kind == OP_ASSIGN_COPY && op.t != op.s
                               && (feat.std_alloc || feat.always_equal || ! feat.pocca || p0.aid == pre[op.s].aid);
        if ((is_growing_op (op.kind) || same_alloc_copy) && p1.size <= p0.cap)
        {
          cov.count ("c10.fitting-ops");
          if (p1.cap != p0.cap || p1.data != p0.data)
            violate ("C10", "norealloc.fitting-op-moved-buffer", "new size %zu fits capacity %zu but capacity/data changed (%zu,%p)->(%zu,%p)",
                     p1.size, p0.cap, p0.cap, (const void *) p0.data, p1.cap, (const void *) p1.data);
          long fm = first_modified (op);
          if (fm > 0 && p1.data == p0.data)
          {
            for (long i = 0; i < fm && static_cast<size_t> (i) < p1.size; ++i)
            {
              cov.count ("c10.prefix-elements");
              if (feat.tracked && (p1.serials[i] != p0.serials[i] || touched_at (p0.addr (i), op.alias == static_cast<int> (i))))
              { violate ("C10", "norealloc.prefix-touched", "element %ld precedes the first modified position %ld but was touched", i, fm); break; }
              if (p1.values[i] != p0.values[i])
              { violate ("C10", "norealloc.prefix-value", "element %ld precedes the first modified position but changed value", i); break; }
            }
          }
        }
        if (op.kind == OP_RESERVE)
        {
          if (p1.cap < static_cast<size_t> (op.count))
            violate ("C10", "reserve.capacity-too-small", "reserve(%d) left capacity %zu", op.count, p1.cap);
          if (static_cast<size_t> (op.count) <= p0.cap)
          {
            cov.count ("c10.reserve-noop");
            if (p1.cap != p0.cap || p1.data != p0.data || g.window_allocs || (feat.tracked && ! REG ().events.empty ()))
              violate ("C10", "reserve.not-noop", "reserve(%d) with capacity %zu changed something", op.count, p0.cap);
          }
        }
        if (op.kind == OP_POP_BACK || op.kind == OP_ERASE || op.kind == OP_ERASE_RANGE || op.kind == OP_CLEAR
            || op.kind == OP_NM_ERASE || op.kind == OP_NM_ERASE_IF)
        {
          cov.count ("c10.shrinking-ops");
          if (p1.cap != p0.cap || p1.data != p0.data || g.window_allocs)
            violate ("C10", "shrinkop.changed-buffer", "capacity/data changed or allocate() called by a removing operation");
        }
        if (is_growing_op (op.kind) && p1.size > p0.cap && ! (op_has_range (op.kind) && it_is_stream (op.itk)))
        {
          cov.count ("c10.reallocating-ops");
          if (feat.ledgered && g.window_allocs > 1)
            violate ("C10", "realloc.more-than-once", "growing call with known count allocated %ld times", g.window_allocs);
          if (feat.tracked)
            for (size_t i = 0; i < p0.size; ++i)
            {
              int reads = 0;
              const std::vector<Ev, MallocAlloc<Ev> >& ev = REG ().events;
              for (size_t k = 0; k < ev.size (); ++k)
                if (ev[k].addr == p0.addr (i) && ev[k].serial == p0.serials[i] && (ev[k].kind == EV_READ_FROM || ev[k].kind == EV_MOVED_FROM)) ++reads;
              // the aliased argument itself is legitimately copied once per new element (insert(pos,n,v[i]), resize(n,v[i])) plus its own relocation
              int allowed = (op.alias == static_cast<int> (i)) ? 1 + (op.kind == OP_INSERT_N || op.kind == OP_RESIZE_VAL ? op.count : 1) : 1;
              if (reads > allowed)
              { violate ("C10", "realloc.element-relocated-twice", "pre-existing element %zu was copied/moved %d times during one growing call", i, reads); break; }
            }
        }
      }

      // ---- C14: geometric growth
      if (mon (14) && normal && (is_growing_op (op.kind) || op.kind == OP_RESERVE) && p1.cap != p0.cap && p1.cap > p0.cap)
      {
        cov.count ("c14.reallocations");
        size_t required = op.kind == OP_RESERVE ? static_cast<size_t> (op.count) : p1.size;
        if (p1.cap < required)
          violate ("C14", "growth.capacity-lt-required", "capacity %zu < required %zu", p1.cap, required);
        if (p1.cap < p0.cap + p0.cap / 2)
          violate ("C14", "growth.less-than-1.5x", "reallocation grew capacity %zu -> %zu (< 1.5x)", p0.cap, p1.cap);
        cov.tuple (format ("c14|%s|%s|ratio%s", op_name (op.kind), state_class (p0).c_str (),
                           p0.cap == 0 ? "n/a" : p1.cap >= 2 * p0.cap ? ">=2" : ">=1.5"));
      }

      // ---- C15: single pass consumption
      if (mon (15) && r.have_stream && normal)
      {
        cov.count ("c15.stream-ranges");
        cov.count ("c15.stream-positions", r.stream_len);
        if (r.stream_derefs != r.stream_len || r.stream_incs != r.stream_len)
          violate ("C15", "stream.not-consumed-exactly-once", "range of %ld positions: %ld dereferences, %ld increments", r.stream_len, r.stream_derefs, r.stream_incs);
      }
      if (mon (15) && op.kind == OP_CTOR_GEN && normal && r.gen_calls != op.count)
        violate ("C15", "generator.call-count", "generator called %ld times for count %d", r.gen_calls, op.count);

      // ---- C18 (truthfulness, non-throwing half): noexcept ops have no throwing path
      if (mon (18) && r.noexcept_declared)
      {
        cov.count ("c18.noexcept-ops-observed");
        if (g.window_allocs > 0 || g.fault.ticks > 0)
          violate ("C18", "noexcept.has-throwing-path", "operation declared noexcept called allocate() %ld time(s) and %ld potentially-throwing element operation(s)", g.window_allocs, g.fault.ticks);
      }

      // coverage tuple for every op
      cov.tuple (format ("%s|N%u|%s->%s|%s|pos%s|cnt-tail%s|cnt-free%s%s%s", op_name (op.kind), p0.N, state_class (p0).c_str (),
                         p1.inlined ? "inl" : "heap", outcome_name (r.out),
                         op.pos == 0 ? "0" : static_cast<size_t> (op.pos) == p0.size ? "end" : "mid",
                         rel (op.count, long (p0.size) - op.pos), rel (op.count, long (p0.cap) - long (p0.size)),
                         op.alias >= 0 ? "|alias" : "", op_has_range (op.kind) ? format ("|%s", it_name (op.itk)).c_str () : ""));
    }

    // events at `addr` in the current epoch; plain copy-reads of the aliased argument do not count
    bool touched_at (const void *addr, bool is_alias_arg) const
    {
      const std::vector<Ev, MallocAlloc<Ev> >& ev = REG ().events;
      for (size_t k = 0; k < ev.size (); ++k)
        if (ev[k].addr == addr && ! (is_alias_arg && ev[k].kind == EV_READ_FROM)) return true;
      return false;
    }

    // a heap buffer described by `src` (before) must now be `dst`'s buffer, elements untouched
    void check_transfer (const Op& op, const Snap& src, const Snap& dst, const char *what)
    {
      (void) op;
      if (dst.data != src.data || dst.cap != src.cap || dst.size != src.size)
      {
        violate ("C09", "steal.buffer-not-transferred", "%s: destination data()/capacity/size (%p,%zu,%zu) != source's old (%p,%zu,%zu)", what,
                 (const void *) dst.data, dst.cap, dst.size, (const void *) src.data, src.cap, src.size);
        return;
      }
      if (! feat.tracked) return;
      for (size_t i = 0; i < src.size; ++i)
      {
        if (dst.serials[i] != src.serials[i])
        { violate ("C09", "steal.element-identity", "%s: element %zu of the transferred buffer changed identity", what, i); return; }
        if (REG ().events_at (src.addr (i)) != 0)
        { violate ("C09", "steal.element-touched", "%s: element %zu of the transferred buffer was constructed/assigned/destroyed/read", what, i); return; }
      }
    }

    static mstring show (const mvector<int>& v)
    {
      mstring r = "[";
      for (size_t i = 0; i < v.size () && i < 24; ++i) r += format (i ? ",%d" : "%d", v[i]);
      if (v.size () > 24) r += ",...";
      r += format ("](%zu)", v.size ());
      return r;
    }

    // -----------------------------------------------------------------------------------------
    // Execute one op with all monitors.
    // resolve symbolic arguments; false when the resolved op would be invalid for the state
    bool resolve (Op& op)
    {
      const Snap& c = pre[op.t];
      const long size = static_cast<long> (c.size), cap = static_cast<long> (c.cap);
      if (op.prel == 1) op.pos = static_cast<int> (size + op.pos);
      else if (op.prel == 2) op.pos = static_cast<int> (size / 2 + op.pos);
      op.prel = 0;
      long base = 0;
      switch (op.crel)
      {
        case 1: base = size - op.pos; break;
        case 2: base = cap - size; break;
        case 3: base = cap; break;
        case 4: base = size; break;
        case 5: base = static_cast<long> (c.N); break;
        case 6: base = 2 * cap; break;
      }
      if (op.crel) op.count = static_cast<int> (base + op.count);
      op.crel = 0;
      if (op.arel == 1) op.alias = static_cast<int> (size - 1 + op.alias);
      else if (op.arel == 2) op.alias = op.pos + op.alias;
      if (op.arel && (op.alias < 0 || op.alias >= size)) return false;
      op.arel = 0;
      if (op.count < 0 || op.count > 4096) return false;
      if (op.alias >= size) return false;
      switch (op.kind)
      {
        case OP_INSERT_COPY: case OP_INSERT_MOVE: case OP_EMPLACE: case OP_INSERT_N: case OP_INSERT_RANGE: case OP_INSERT_ILIST:
          if (op.pos < 0 || op.pos > size) return false; break;
        case OP_ERASE: if (op.pos < 0 || op.pos >= size) return false; break;
        case OP_ERASE_RANGE: if (op.pos < 0 || op.pos + op.count > size) return false; break;
        case OP_POP_BACK: if (size == 0) return false; break;
      }
      if ((op.kind == OP_INSERT_ILIST || op.kind == OP_APPEND_ILIST || op.kind == OP_ASSIGN_ILIST || op.kind == OP_OPASSIGN_ILIST
           || op.kind == OP_CTOR_ILIST) && op.count > 4) return false;
      return true;
    }

    Outcome exec (const Op& op_in, long fault_k1 = 0, long fault_k2 = 0, unsigned fault_mask = TK_ALL)
    {
      Globals& g = G ();
      Op op = op_in;
      snap_all (pre);
      if (! resolve (op)) return OUT_SKIPPED;
      ++COV ().evaluations;
      marker_set (case_index, op_index, 0);
      {
        Internal in;
        mstring d = op_describe (op);
        mstring k = format ("%s", op_name (op.kind));
        if (op_has_range (op.kind)) k += format ("/%s", it_name (op.itk));
        if (op_is_binary (op.kind)) k += format ("/N%s", rel (info[op.s].N, info[op.t].N));
        marker_desc (d.c_str (), k.c_str ());
        g.opkey = k;
        if (g.verbose_trace)
          std::fprintf (g.out, "{\"type\":\"op\",\"i\":%d,\"enc\":\"%s\",\"desc\":\"%s\"}\n", op_index, op_encode (op).c_str (), json_escape (d).c_str ());
      }
      fault_reset (fault_mask);
      in_fault_run = fault_k1 > 0;
      if (fault_k1 > 0) fault_arm (fault_k1, fault_k2);
      OpResult r;
      marker_set (case_index, op_index, 1);
      // in a fault run, violations raised online DURING the operation (registry / ledger, e.g. a roll-back handler that
      // releases a block the allocator never issued) belong to C06 as well
      const char *run_also = g.also_prop; const char *run_pref = g.also_prefix;
      if (fault_k1 > 0) { g.also_prop = "C06"; g.also_prefix = ""; }
      dispatch (op, r);
      g.also_prop = run_also; g.also_prefix = run_pref;
      G ().fault.armed = false;
      marker_set (case_index, op_index, 2);
      if (r.out == OUT_SKIPPED) { --COV ().evaluations; return r.out; }
      // a throwing constructor leaves no container behind
      if (op_is_ctor (op.kind) && r.out != OUT_NORMAL) { info[op.t].live = false; info[op.t].model.clear (); }
      snap_all (post);
      if (r.out == OUT_NORMAL)
      {
        apply_model (op, r);
        apply_alloc_model (op);
        if (op.kind == OP_CTOR_MOVE || op.kind == OP_ASSIGN_MOVE || op.kind == OP_APPEND_MOVE)
          resync (op.s);   // moved-from contents are unspecified (for self move-assignment this is the target itself)
      }
      const char *save_also = g.also_prop; const char *save_pref = g.also_prefix;
      if (r.out == OUT_FAULT || r.out == OUT_FAULT_ALLOC) { g.also_prop = "C06"; g.also_prefix = ""; }
      if (r.out == OUT_FAULT || r.out == OUT_FAULT_ALLOC)
      {
        fault_monitors (op, r);
        for (int i = 0; i < NSLOT; ++i) if (info[i].live) resync (i);
        if (feat.ledgered && ! feat.always_equal)
          for (int i = 0; i < NSLOT; ++i) if (info[i].live) info[i].exp_aid = post[i].aid;
      }
      if (want (2)) probe_all (r.out == OUT_NORMAL ? "after-op" : "after-throw");
      monitors (op, r);
      if (r.out == OUT_NORMAL && (mon (1) || mon (11)) )
        read_check (op.t);
      g.also_prop = save_also; g.also_prefix = save_pref;
      if (! info[op.t].live) revive (op.t);
      ++op_index;
      return r.out;
    }

    // C05 / C06 monitors after an injected fault reached the caller
    void fault_monitors (const Op& op, const OpResult& r)
    {
      Internal in;
      (void) r;
      Coverage& cov = COV ();
      const FaultState& f = G ().fault;
      cov.count ("faults-fired", f.fired);
      if (f.fired > 1) { cov.count ("double-faults"); if (f.inflight_at_second > 0) cov.count ("second-fault-inside-handler"); }
      cov.tuple (format ("fault|%s|%s|%s|k%s%s", op_name (op.kind), state_class (pre[op.t]).c_str (), tick_name (f.fired_kind[0]),
                         f.fired_at[0] <= 1 ? "first" : "later", f.fired > 1 ? format ("|2nd:%s", tick_name (f.fired_kind[1])).c_str () : ""));
      if (! (mon (5) && strong_check)) return;
      // strong guarantee
      bool std_specified = false, applies = false, src_too = false;
      switch (op.kind)
      {
        case OP_PUSH_BACK_COPY: case OP_PUSH_BACK_MOVE: case OP_EMPLACE_BACK: case OP_RESERVE: case OP_RESIZE: case OP_RESIZE_VAL:
        case OP_SHRINK:
          std_specified = applies = true; break;
        case OP_INSERT_COPY: case OP_INSERT_MOVE: case OP_EMPLACE:
          applies = std_specified = static_cast<size_t> (op.pos) == pre[op.t].size; break;
        case OP_INSERT_RANGE: case OP_INSERT_ILIST: case OP_INSERT_N:
          // every way of inserting exactly one element at end (): insert (end (), first, first + 1), insert (end (), { x }), insert (end (), 1, x)
          applies = std_specified = (static_cast<size_t> (op.pos) == pre[op.t].size && op.count == 1); break;
        case OP_APPEND_RANGE: case OP_APPEND_ILIST: case OP_APPEND_COPY: applies = true; break;
        case OP_APPEND_MOVE: applies = true; src_too = true; break;
      }
      if (! applies) return;
      cov.count ("c05.strong-cases");
      check_unchanged (op.t, std_specified && ! (op_has_range (op.kind) && it_is_stream (op.itk)));
      if (src_too && op.s != op.t) check_unchanged (op.s, false);
      // "... and nothing leaked": every element object and every block created by the failed call is gone again
      if (feat.tracked)
      {
        long expect = 0;
        for (int i = 0; i < NSLOT; ++i) if (info[i].live) expect += static_cast<long> (post[i].size);
        if (REG ().live != expect)
          violate ("C05", "strong.leaked-elements", "%ld element object(s) alive after the failed call but the containers hold %ld", REG ().live, expect);
      }
      if (feat.ledgered)
      {
        long heap = 0;
        for (int i = 0; i < NSLOT; ++i) if (info[i].live && ! post[i].inlined) ++heap;
        if (LEDGER ().live != heap)
          violate ("C05", "strong.leaked-block", "%ld block(s) allocated after the failed call but %ld container(s) are on the heap", LEDGER ().live, heap);
      }
    }

    void check_unchanged (int slot, bool with_addresses)
    {
      const Snap& a = pre[slot];
      const Snap& b = post[slot];
      if (a.size != b.size)
      { violate ("C05", "strong.size-changed", "v%d size %zu -> %zu after a failed call", slot, a.size, b.size); return; }
      for (size_t i = 0; i < a.size; ++i)
        if (a.values[i] != b.values[i])
        {
          violate ("C05", b.values[i] == MOVED_VALUE ? "strong.element-moved-from" : "strong.value-changed",
                   "v%d[%zu] was %d, is %d after a failed call", slot, i, a.values[i], b.values[i]);
          return;
        }
      if (with_addresses)
      {
        if (a.cap != b.cap || a.data != b.data)
        { violate ("C05", "strong.buffer-changed", "v%d capacity/data (%zu,%p) -> (%zu,%p) after a failed call", slot, a.cap, (const void *) a.data, b.cap, (const void *) b.data); return; }
        if (feat.tracked)
          for (size_t i = 0; i < a.size; ++i)
            if (a.serials[i] != b.serials[i])
            { violate ("C05", "strong.element-identity", "v%d[%zu] is a different object after a failed call", slot, i); return; }
      }
    }

    // end of history: destroy everything, nothing may remain
    void finish_history ()
    {
      destroy_all ();
      Internal in;
      if (FSTATS ().made)
      {
        COV ().count ("fancy-pointers-made", FSTATS ().made); COV ().count ("fancy-pointer-derefs", FSTATS ().derefs);
        COV ().count ("fancy-pointer-arithmetic", FSTATS ().arith);
        FSTATS ().made = FSTATS ().derefs = FSTATS ().arith = 0;
      }
      if (mon (3) && feat.tracked && REG ().live != 0)
      {
        violate ("C03", "final.elements-leaked", "%ld element(s) still alive after all containers were destroyed", REG ().live);
        REG ().recs.clear (); REG ().live = 0;
      }
      if (mon (4) && feat.ledgered && LEDGER ().live != 0)
      {
        violate ("C04", "final.blocks-leaked", "%ld block(s) still allocated after all containers were destroyed", LEDGER ().live);
        LEDGER ().blocks.clear (); LEDGER ().live = 0;
      }
      if (! mon (3) && feat.tracked) { REG ().recs.clear (); REG ().live = 0; }
      if (! mon (4) && feat.ledgered) { LEDGER ().blocks.clear (); LEDGER ().live = 0; }
    }

    // -----------------------------------------------------------------------------------------
    // Generation
    bool op_supported (int k, int t, int s) const
    {
      switch (k)
      {
        case OP_PUSH_BACK_COPY: case OP_INSERT_COPY: case OP_INSERT_N: case OP_INSERT_ILIST: case OP_RESIZE_VAL:
        case OP_ASSIGN_N: case OP_ASSIGN_ILIST: case OP_OPASSIGN_ILIST: case OP_APPEND_ILIST: case OP_CTOR_N_VAL:
        case OP_CTOR_ILIST: case OP_CTOR_COPY: case OP_ASSIGN_COPY: case OP_APPEND_COPY:
          return feat.copyable;
        case OP_RESIZE: case OP_CTOR_N: return feat.def_ctor;
        case OP_SWAP: return info[t].N == info[s].N;
        case OP_CTOR_ALLOC: return true;
      }
      return true;
    }

    bool it_supported (int itk) const
    {
      switch (itk)
      {
        case IT_STREAM_VAL: case IT_FWD_VAL: case IT_RAND_VAL: case IT_PTR_VAL: return feat.from_val;
        case IT_FWD: case IT_BIDI: case IT_RAND: case IT_PTR: case IT_VEC: case IT_SVIT: return feat.copyable;
      }
      return true;
    }

    int pick_count (Rng& rng, const Snap& s, int pos, int limit)
    {
      long tail = static_cast<long> (s.size) - pos;
      long free_ = static_cast<long> (s.cap) - static_cast<long> (s.size);
      long toN = static_cast<long> (s.N) - static_cast<long> (s.size);
      long cands[] = { 0, 1, 2, 3, tail - 1, tail, tail + 1, free_ - 1, free_, free_ + 1, toN - 1, toN, toN + 1,
                       static_cast<long> (s.cap) + 1, 2 * static_cast<long> (s.cap) + 1, long (rng.below (8)) };
      for (int tries = 0; tries < 8; ++tries)
      {
        long c = cands[rng.below (sizeof cands / sizeof cands[0])];
        if (c >= 0 && c <= limit) return static_cast<int> (c);
      }
      { int c = static_cast<int> (rng.below (4)); return c <= limit ? c : (limit > 0 ? limit : 0); }
    }

    int pick_size (Rng& rng, const Snap& s, int limit)
    {
      long cands[] = { 0, 1, long (s.size) - 1, long (s.size), long (s.size) + 1, long (s.N) - 1, long (s.N), long (s.N) + 1,
                       long (s.cap) - 1, long (s.cap), long (s.cap) + 1, 2 * long (s.cap) + 1, long (rng.below (12)) };
      for (int tries = 0; tries < 8; ++tries)
      {
        long c = cands[rng.below (sizeof cands / sizeof cands[0])];
        if (c >= 0 && c <= limit) return static_cast<int> (c);
      }
      { int c = static_cast<int> (rng.below (6)); return c <= limit ? c : (limit > 0 ? limit : 0); }
    }

    int pick_it (Rng& rng)
    {
      for (int tries = 0; tries < 32; ++tries)
      {
        int k = static_cast<int> (rng.below (IT__COUNT));
        if (it_supported (k)) return k;
      }
      return IT_STREAM_INT;
    }

    // state-directed random op; `cur` are fresh snapshots of the pool
    Op gen_op (Rng& rng, const Snap *cur, int& next_val)
    {
      static const int general[] = {
        OP_PUSH_BACK_COPY, OP_PUSH_BACK_MOVE, OP_EMPLACE_BACK, OP_EMPLACE_BACK, OP_INSERT_COPY, OP_INSERT_MOVE, OP_EMPLACE,
        OP_INSERT_N, OP_INSERT_N, OP_INSERT_RANGE, OP_INSERT_RANGE, OP_INSERT_RANGE, OP_INSERT_ILIST, OP_ERASE, OP_ERASE_RANGE,
        OP_ERASE_RANGE, OP_POP_BACK, OP_CLEAR, OP_RESIZE, OP_RESIZE_VAL, OP_RESERVE, OP_SHRINK, OP_SHRINK, OP_ASSIGN_N,
        OP_ASSIGN_RANGE, OP_ASSIGN_RANGE, OP_ASSIGN_ILIST, OP_OPASSIGN_ILIST, OP_APPEND_RANGE, OP_APPEND_RANGE, OP_APPEND_ILIST,
        OP_READ, OP_NM_ERASE, OP_NM_ERASE_IF, OP_CTOR_DEFAULT, OP_CTOR_ALLOC, OP_CTOR_N, OP_CTOR_N_VAL, OP_CTOR_GEN,
        OP_CTOR_RANGE, OP_CTOR_RANGE, OP_CTOR_ILIST, OP_CTOR_COPY, OP_CTOR_COPY, OP_CTOR_MOVE, OP_CTOR_MOVE, OP_ASSIGN_COPY,
        OP_ASSIGN_COPY, OP_ASSIGN_MOVE, OP_ASSIGN_MOVE, OP_SWAP, OP_SWAP, OP_APPEND_COPY, OP_APPEND_MOVE, OP_COMPARE };
      static const int alloc_heavy[] = {
        OP_CTOR_COPY, OP_CTOR_MOVE, OP_ASSIGN_COPY, OP_ASSIGN_MOVE, OP_SWAP, OP_CTOR_COPY, OP_CTOR_MOVE, OP_ASSIGN_COPY,
        OP_ASSIGN_MOVE, OP_SWAP, OP_SWAP, OP_ASSIGN_MOVE, OP_CTOR_MOVE, OP_APPEND_MOVE, OP_APPEND_COPY,
        OP_RESERVE, OP_SHRINK, OP_SHRINK, OP_PUSH_BACK_MOVE, OP_EMPLACE_BACK, OP_INSERT_N, OP_ERASE_RANGE, OP_CLEAR, OP_RESIZE_VAL,
        OP_CTOR_ALLOC, OP_CTOR_N_VAL, OP_CTOR_RANGE, OP_CTOR_GEN, OP_CTOR_ILIST, OP_CTOR_N, OP_CTOR_DEFAULT, OP_ASSIGN_RANGE, OP_POP_BACK };
      static const int alias_heavy[] = {
        OP_PUSH_BACK_COPY, OP_EMPLACE_BACK, OP_INSERT_COPY, OP_INSERT_COPY, OP_INSERT_N, OP_INSERT_N, OP_EMPLACE, OP_EMPLACE,
        OP_RESIZE_VAL, OP_RESIZE_VAL, OP_ERASE_RANGE, OP_SHRINK, OP_RESERVE, OP_POP_BACK, OP_ERASE, OP_CLEAR, OP_ASSIGN_MOVE, OP_SWAP };
      static const int range_heavy[] = {
        OP_INSERT_RANGE, OP_INSERT_RANGE, OP_INSERT_RANGE, OP_ASSIGN_RANGE, OP_ASSIGN_RANGE, OP_APPEND_RANGE, OP_APPEND_RANGE,
        OP_CTOR_RANGE, OP_CTOR_RANGE, OP_CTOR_GEN, OP_ERASE_RANGE, OP_SHRINK, OP_RESERVE, OP_CLEAR, OP_POP_BACK, OP_ERASE,
        OP_ASSIGN_MOVE, OP_SWAP, OP_RESIZE_VAL };
      static const int grow_heavy[] = {
        OP_PUSH_BACK_COPY, OP_PUSH_BACK_MOVE, OP_EMPLACE_BACK, OP_INSERT_COPY, OP_INSERT_MOVE, OP_EMPLACE, OP_INSERT_N, OP_INSERT_RANGE,
        OP_INSERT_ILIST, OP_RESIZE, OP_RESIZE_VAL, OP_RESERVE, OP_ASSIGN_N, OP_ASSIGN_RANGE, OP_APPEND_RANGE, OP_APPEND_ILIST,
        OP_APPEND_COPY, OP_SHRINK, OP_ERASE_RANGE, OP_CLEAR, OP_CTOR_DEFAULT, OP_ASSIGN_MOVE, OP_SWAP, OP_ASSIGN_COPY, OP_ASSIGN_COPY,
        OP_CTOR_ALLOC, OP_POP_BACK };
      const int *table = general; unsigned tn = sizeof general / sizeof general[0];
      if (mode == MODE_ALLOC) { table = alloc_heavy; tn = sizeof alloc_heavy / sizeof alloc_heavy[0]; }
      if (mode == MODE_ALIAS) { table = alias_heavy; tn = sizeof alias_heavy / sizeof alias_heavy[0]; }
      if (mode == MODE_RANGE) { table = range_heavy; tn = sizeof range_heavy / sizeof range_heavy[0]; }
      if (mode == MODE_GROW)  { table = grow_heavy; tn = sizeof grow_heavy / sizeof grow_heavy[0]; }

      for (int attempt = 0; attempt < 64; ++attempt)
      {
        Op op;
        op.kind = table[rng.below (tn)];
        op.t = static_cast<int> (rng.below (NSLOT));
        op.s = static_cast<int> (rng.below (NSLOT));
        const bool self_ok = (op.kind == OP_ASSIGN_COPY || op.kind == OP_ASSIGN_MOVE || op.kind == OP_SWAP) && rng.chance (1, 8);
        if (op_is_binary (op.kind) && op.s == op.t && ! self_ok && op.kind != OP_COMPARE)
          op.s = (op.t + 1 + static_cast<int> (rng.below (NSLOT - 1))) % NSLOT;
        if (self_ok) op.s = op.t;
        if (op.kind == OP_SWAP && ! self_ok)
        {
          // only equal-N partners
          int cand[NSLOT]; int nc = 0;
          for (int i = 0; i < NSLOT; ++i) if (i != op.t && info[i].N == info[op.t].N) cand[nc++] = i;
          if (! nc) continue;
          op.s = cand[rng.below (static_cast<uint32_t> (nc))];
        }
        if (! op_supported (op.kind, op.t, op.s)) continue;
        const Snap& c = cur[op.t];
        const int size = static_cast<int> (c.size);
        const int room = max_size_soft - size;
        int lim = mode == MODE_SMALL ? static_cast<int> (c.N) - size : room;   // how many elements may be added
        if (lim < 0) lim = 0;
        op.val = next_val;
        op.aid = 1 + static_cast<int> (rng.below (2));
        op.flag = static_cast<int> (rng.below (2));
        op.pos = size ? static_cast<int> (rng.below (static_cast<uint32_t> (size + 1))) : 0;
        if (rng.chance (1, 4)) op.pos = size;
        if (rng.chance (1, 6)) op.pos = 0;
        bool may_alias = feat.copyable && size > 0 && (mode == MODE_ALIAS ? rng.chance (3, 4) : rng.chance (1, 4));
        switch (op.kind)
        {
          case OP_PUSH_BACK_COPY: case OP_EMPLACE_BACK: case OP_INSERT_COPY: case OP_EMPLACE:
            if (lim < 1) continue;
            if (may_alias) op.alias = static_cast<int> (rng.below (static_cast<uint32_t> (size)));
            if (op.kind == OP_EMPLACE_BACK && ! feat.copyable) op.alias = -1;
            if (op.kind == OP_EMPLACE && ! feat.copyable) op.alias = -1;
            break;
          case OP_PUSH_BACK_MOVE: case OP_INSERT_MOVE:
            if (lim < 1) continue;
            break;
          case OP_INSERT_N:
            op.count = pick_count (rng, c, op.pos, lim);
            if (may_alias) op.alias = static_cast<int> (rng.below (static_cast<uint32_t> (size)));
            break;
          case OP_INSERT_RANGE: case OP_APPEND_RANGE:
            if (op.kind == OP_APPEND_RANGE) op.pos = size;
            op.count = pick_count (rng, c, op.pos, lim);
            op.itk = pick_it (rng);
            if (op.kind == OP_INSERT_RANGE && (op.itk == IT_FWD_VAL || op.itk == IT_RAND_VAL || op.itk == IT_PTR_VAL)) op.itk = IT_STREAM_VAL;
            if (mode == MODE_RANGE && rng.chance (1, 2)) op.itk = feat.from_val && rng.chance (1, 2) ? IT_STREAM_VAL : IT_STREAM_INT;
            if (mode == MODE_SMALL && it_is_stream (op.itk) && op.kind == OP_INSERT_RANGE && op.count > int (c.N)) continue;
            break;
          case OP_INSERT_ILIST: case OP_APPEND_ILIST:
            if (op.kind == OP_APPEND_ILIST) op.pos = size;
            op.count = static_cast<int> (rng.below (5));
            if (op.count > lim) op.count = lim;
            break;
          case OP_ERASE:
            if (! size) continue;
            op.pos = static_cast<int> (rng.below (static_cast<uint32_t> (size)));
            break;
          case OP_ERASE_RANGE:
            op.count = static_cast<int> (rng.below (static_cast<uint32_t> (size - op.pos + 1)));
            if (rng.chance (1, 4)) op.count = size - op.pos;
            break;
          case OP_POP_BACK: if (! size) continue; break;
          case OP_RESIZE: case OP_RESIZE_VAL:
            op.count = pick_size (rng, c, size + lim);
            if (op.kind == OP_RESIZE_VAL && may_alias) op.alias = static_cast<int> (rng.below (static_cast<uint32_t> (size)));
            break;
          case OP_RESERVE:
            op.count = pick_size (rng, c, mode == MODE_SMALL ? int (c.N) : max_size_soft + 8);
            break;
          case OP_ASSIGN_N: case OP_CTOR_N: case OP_CTOR_N_VAL: case OP_CTOR_GEN:
            op.count = pick_size (rng, c, mode == MODE_SMALL ? int (c.N) : max_size_soft);
            break;
          case OP_ASSIGN_RANGE: case OP_CTOR_RANGE:
            op.count = pick_size (rng, c, mode == MODE_SMALL ? int (c.N) : max_size_soft);
            op.itk = pick_it (rng);
            if (mode == MODE_RANGE && rng.chance (1, 2)) op.itk = feat.from_val && rng.chance (1, 2) ? IT_STREAM_VAL : IT_STREAM_INT;
            break;
          case OP_ASSIGN_ILIST: case OP_OPASSIGN_ILIST: case OP_CTOR_ILIST:
            op.count = static_cast<int> (rng.below (5));
            if (mode == MODE_SMALL && op.count > int (c.N)) op.count = int (c.N);
            break;
          case OP_NM_ERASE:
            op.val = size ? c.values[rng.below (static_cast<uint32_t> (size))] : 0;
            break;
          case OP_NM_ERASE_IF: op.val = static_cast<int> (rng.below (8)); break;
          case OP_CTOR_COPY: case OP_CTOR_MOVE: case OP_ASSIGN_COPY: case OP_ASSIGN_MOVE:
            if (mode == MODE_SMALL && cur[op.s].size > c.N) continue;
            break;
          case OP_SWAP: break;
          case OP_APPEND_COPY: case OP_APPEND_MOVE:
            if (static_cast<int> (cur[op.s].size) > lim) continue;
            break;
        }
        next_val += (op.count > 1 ? op.count : 1);
        if (next_val > 900000) next_val = 1;
        return op;
      }
      Op op; op.kind = OP_CLEAR; op.t = static_cast<int> (rng.below (NSLOT));
      return op;
    }

    // -----------------------------------------------------------------------------------------
    // Provenance recipes: op sequences that bring slot `t` to `size` elements with a given history.
    enum Prov { PR_FRESH = 0, PR_GROWN, PR_RESERVED, PR_SHRUNK, PR_ERASED, PR_STOLEN, PR_MOVED_FROM, PR_SLACK1, PR__COUNT };
    static const char *prov_name (int p)
    {
      static const char *n[] = { "fresh", "grown", "reserved", "shrunk-back", "erased", "stolen-into", "moved-from-then-filled", "slack1" };
      return n[p];
    }

    void recipe (mvector<Op>& ops, int t, int size, int prov, int& next_val, int helper = -1)
    {
      Op o; o.t = t;
      const int N = static_cast<int> (info[t].N);
      switch (prov)
      {
        case PR_FRESH:
          o.kind = OP_CTOR_GEN; o.count = size; o.val = next_val; next_val += size + 1; ops.push_back (o);
          break;
        case PR_GROWN:
          o.kind = OP_CTOR_DEFAULT; ops.push_back (o);
          for (int i = 0; i < size; ++i) { o.kind = OP_EMPLACE_BACK; o.val = next_val++; ops.push_back (o); }
          break;
        case PR_RESERVED:
          o.kind = OP_CTOR_DEFAULT; ops.push_back (o);
          o.kind = OP_RESERVE; o.count = std::max (size, N) + 3; ops.push_back (o);
          o.kind = OP_APPEND_RANGE; o.itk = IT_RAND_INT; o.count = size; o.val = next_val; next_val += size + 1; o.pos = 0; ops.push_back (o);
          break;
        case PR_SLACK1:
          o.kind = OP_CTOR_DEFAULT; ops.push_back (o);
          o.kind = OP_RESERVE; o.count = std::max (size + 1, N + 1); ops.push_back (o);
          o.kind = OP_APPEND_RANGE; o.itk = IT_RAND_INT; o.count = size; o.val = next_val; next_val += size + 1; o.pos = 0; ops.push_back (o);
          break;
        case PR_SHRUNK:
          o.kind = OP_CTOR_GEN; o.count = size + N + 3; o.val = next_val; next_val += o.count + 1; ops.push_back (o);
          o.kind = OP_ERASE_RANGE; o.pos = size; o.count = N + 3; ops.push_back (o);
          o.kind = OP_SHRINK; o.pos = 0; o.count = 0; ops.push_back (o);
          break;
        case PR_ERASED:
          o.kind = OP_CTOR_GEN; o.count = 2 * size + N + 2; o.val = next_val; next_val += o.count + 1; ops.push_back (o);
          o.kind = OP_ERASE_RANGE; o.pos = 0; o.count = size + N + 2; ops.push_back (o);
          break;
        case PR_STOLEN:
        {
          int h = helper >= 0 ? helper : (t + 1) % NSLOT;
          Op b; b.t = h; b.kind = OP_CTOR_DEFAULT; ops.push_back (b);
          b.kind = OP_RESERVE; b.count = std::max (size, std::max (N, int (info[h].N))) + 2; ops.push_back (b);
          b.kind = OP_APPEND_RANGE; b.itk = IT_RAND_INT; b.count = size; b.val = next_val; next_val += size + 1; ops.push_back (b);
          o.kind = OP_ASSIGN_MOVE; o.s = h; ops.push_back (o);
          break;
        }
        case PR_MOVED_FROM:
        {
          int h = helper >= 0 ? helper : (t + 1) % NSLOT;
          o.kind = OP_CTOR_GEN; o.count = N + 2; o.val = next_val; next_val += N + 3; ops.push_back (o);
          Op b; b.t = h; b.s = t; b.kind = OP_CTOR_MOVE; ops.push_back (b);
          o.kind = OP_CLEAR; o.count = 0; ops.push_back (o);
          for (int i = 0; i < size; ++i) { o.kind = OP_EMPLACE_BACK; o.val = next_val++; ops.push_back (o); }
          break;
        }
      }
    }

    // Run an explicit op list (no faults); used by sweep and replay.
    void run_ops (const mvector<Op>& ops)
    {
      reset_pool ();
      op_index = 0;
      hist_allocs_base = LEDGER ().allocs;
      for (size_t i = 0; i < ops.size (); ++i) exec (ops[i]);
      finish_history ();
    }

    // Fault enumeration on the last op of `ops`.  Returns number of fault runs.
    long run_fault_case (const mvector<Op>& ops, unsigned mask, bool strong, bool pairs, long max_k = 400)
    {
      long runs = 0;
      for (long k1 = 1; k1 <= max_k; ++k1)
      {
        long after_first = 0;
        Outcome o = run_fault_once (ops, mask, strong, k1, 0, &after_first);
        ++runs;
        if (o != OUT_FAULT && o != OUT_FAULT_ALLOC) break;   // completed without firing: enumeration complete
        if (pairs)
          for (long k2 = 1; k2 <= after_first && k2 <= 64; ++k2)
          {
            run_fault_once (ops, mask, strong, k1, k2, 0);
            ++runs;
          }
      }
      return runs;
    }

    Outcome run_fault_once (const mvector<Op>& ops, unsigned mask, bool strong, long k1, long k2, long *ticks_after_first)
    {
      reset_pool ();
      op_index = 0;
      hist_allocs_base = LEDGER ().allocs;
      for (size_t i = 0; i + 1 < ops.size (); ++i) exec (ops[i]);
      strong_check = strong;
      Outcome o = exec (ops.back (), k1, k2, mask);
      strong_check = false;
      if (ticks_after_first)
        *ticks_after_first = (G ().fault.fired >= 1) ? G ().fault.ticks - G ().fault.fired_at[0] : 0;
      if (o == OUT_FAULT || o == OUT_FAULT_ALLOC)
      {
        COV ().count ("fault-runs");
        if (mon (6))
          for (int i = 0; i < NSLOT; ++i)
            if (info[i].live) followup (i);
      }
      finish_history ();
      return o;
    }
  };

} // namespace svmon

#endif
