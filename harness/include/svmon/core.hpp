// svmon/core.hpp -- globals shared by all monitors: PRNG, fault injector, violation sink,
// case marker in shared memory, fork-per-chunk runner, tiny JSON helpers.
// C++11-compatible on purpose (the C17 corpus harness is built as C++11 too).
#ifndef SVMON_CORE_HPP
#define SVMON_CORE_HPP

#include <cstdint>
#include <cstdio>
#include <cstdlib>
#include <cstring>
#include <cstdarg>
#include <new>
#include <string>
#include <vector>
#include <map>
#include <set>
#include <exception>
#include <stdexcept>
#include <functional>
#include <unistd.h>
#include <signal.h>
#include <sys/mman.h>
#include <sys/wait.h>
#include <sys/types.h>
#include <sys/time.h>

#if defined(__SANITIZE_ADDRESS__)
#  define SVMON_ASAN 1
#elif defined(__has_feature)
#  if __has_feature(address_sanitizer)
#    define SVMON_ASAN 1
#  endif
#endif
#ifdef SVMON_ASAN
extern "C" void __asan_poison_memory_region (void const volatile *addr, size_t size);
extern "C" void __asan_unpoison_memory_region (void const volatile *addr, size_t size);
#  define SVMON_POISON(p, n)   __asan_poison_memory_region ((p), (n))
#  define SVMON_UNPOISON(p, n) __asan_unpoison_memory_region ((p), (n))
#else
#  define SVMON_POISON(p, n)   ((void) (p), (void) (n))
#  define SVMON_UNPOISON(p, n) ((void) (p), (void) (n))
#endif

#ifdef SVMON_GCOV
extern "C" void __gcov_dump (void);
#endif

namespace svmon
{

  // ---------------------------------------------------------------------------------------------
  // malloc-backed allocator for the monitors' own containers: the monitors must never recurse
  // into what they observe (global operator new is replaced in the std::allocator configuration).
  template <typename T>
  struct MallocAlloc
  {
    typedef T value_type;
    MallocAlloc () noexcept { }
    template <typename U> MallocAlloc (const MallocAlloc<U>&) noexcept { }
    T *allocate (std::size_t n)
    {
      void *p = 0;
      if (alignof (T) > 16) { if (posix_memalign (&p, alignof (T), n * sizeof (T) ? n * sizeof (T) : alignof (T))) p = 0; }
      else p = std::malloc (n * sizeof (T));
      if (! p) { std::fputs ("svmon: out of memory\n", stderr); std::abort (); }
      return static_cast<T *> (p);
    }
    void deallocate (T *p, std::size_t) noexcept { std::free (p); }
    template <typename U> bool operator== (const MallocAlloc<U>&) const noexcept { return true; }
    template <typename U> bool operator!= (const MallocAlloc<U>&) const noexcept { return false; }
  };

  typedef std::basic_string<char, std::char_traits<char>, MallocAlloc<char> > mstring;

  // ---------------------------------------------------------------------------------------------
  struct Rng
  {
    uint64_t s;
    // byte-fed mode (coverage-guided driver): every draw consumes two bytes of the input, 0 once it is used up
    const unsigned char *fp, *fe;
    explicit Rng (uint64_t seed = 1) : s (seed), fp (0), fe (0) { }
    Rng (const unsigned char *data, size_t size) : s (0), fp (data), fe (data + size) { }
    bool fed () const { return fp != 0; }
    bool exhausted () const { return fp != 0 && fp >= fe; }
    uint64_t next ()
    {
      if (fp)
      {
        uint64_t v = 0;
        if (fp < fe) v = *fp++;
        if (fp < fe) v |= static_cast<uint64_t> (*fp++) << 8;
        return v;
      }
      uint64_t z = (s += 0x9E3779B97F4A7C15ull);
      z = (z ^ (z >> 30)) * 0xBF58476D1CE4E5B9ull;
      z = (z ^ (z >> 27)) * 0x94D049BB133111EBull;
      return z ^ (z >> 31);
    }
    // uniform in [0, n)
    uint32_t below (uint32_t n) { return n ? static_cast<uint32_t> (next () % n) : 0; }
    int range (int lo, int hi) { return lo + static_cast<int> (below (static_cast<uint32_t> (hi - lo + 1))); }
    bool chance (uint32_t num, uint32_t den) { return below (den) < num; }
  };

  inline uint64_t mix64 (uint64_t a, uint64_t b)
  {
    Rng r (a * 0x9E3779B97F4A7C15ull + b + 0x1234567);
    r.next ();
    return r.next ();
  }

  // ---------------------------------------------------------------------------------------------
  // Fault injection. Every potentially-throwing action of an instrumented type is a "tick".
  enum TickKind : unsigned
  {
    TK_ALLOC       = 1u << 0,
    TK_COPY_CTOR   = 1u << 1,
    TK_MOVE_CTOR   = 1u << 2,
    TK_DEF_CTOR    = 1u << 3,
    TK_CONV_CTOR   = 1u << 4,
    TK_COPY_ASSIGN = 1u << 5,
    TK_MOVE_ASSIGN = 1u << 6,
    TK_CONV_ASSIGN = 1u << 7,
    TK_SWAP        = 1u << 8,
    TK_IT_DEREF    = 1u << 9,
    TK_IT_INC      = 1u << 10,
    TK_GEN         = 1u << 11,
    TK_ALLOC_CTOR  = 1u << 12,
    TK_ALL         = 0xFFFFFFFFu
  };
  static const unsigned TK_ELEM_CTOR = TK_COPY_CTOR | TK_MOVE_CTOR | TK_DEF_CTOR | TK_CONV_CTOR;
  static const unsigned TK_ELEM_ASSIGN = TK_COPY_ASSIGN | TK_MOVE_ASSIGN | TK_CONV_ASSIGN | TK_SWAP;
  static const unsigned TK_ITER = TK_IT_DEREF | TK_IT_INC | TK_GEN;

  inline const char *tick_name (unsigned k)
  {
    switch (k)
    {
      case TK_ALLOC: return "allocate";
      case TK_COPY_CTOR: return "copy_ctor";
      case TK_MOVE_CTOR: return "move_ctor";
      case TK_DEF_CTOR: return "default_ctor";
      case TK_CONV_CTOR: return "conv_ctor";
      case TK_COPY_ASSIGN: return "copy_assign";
      case TK_MOVE_ASSIGN: return "move_assign";
      case TK_CONV_ASSIGN: return "conv_assign";
      case TK_SWAP: return "swap";
      case TK_IT_DEREF: return "it_deref";
      case TK_IT_INC: return "it_inc";
      case TK_GEN: return "generator";
      case TK_ALLOC_CTOR: return "alloc_default_ctor";
    }
    return "?";
  }

  struct TestFault
  {
    unsigned kind;
    long     index;
  };

  struct InjectedBadAlloc : std::bad_alloc
  {
    const char *what () const noexcept { return "svmon injected bad_alloc"; }
  };

  struct FaultState
  {
    bool     armed;        // countdown active
    long     countdown;    // fires when it reaches 0
    long     second;       // re-arm value after the first fire (0 = none)
    unsigned mask;         // tick kinds that count
    long     ticks;        // masked ticks seen in the current window
    int      fired;        // faults fired in the current window
    unsigned fired_kind[2];
    long     fired_at[2];
    int      inflight_at_second; // std::uncaught_exceptions () when the second fault fired
  };

  // ---------------------------------------------------------------------------------------------
  struct Violation
  {
    mstring prop;     // "C03"
    mstring monitor;  // stable monitor id, e.g. "registry.ctor-over-live"
    mstring key;      // stable key: engine/op/config class/monitor (no addresses, seeds, counts)
    mstring msg;      // free text for humans
    mstring caseid;   // replayable case id
  };

  // Shared between a worker child and its parent: what the child is doing right now.
  struct CaseMarker
  {
    volatile uint64_t case_index;
    volatile int      op_index;
    volatile int      phase;       // 0 idle, 1 in op window, 2 in post-checks
    char              desc[480];   // human readable description of the current op
    char              key[160];    // stable key for a death in this op
  };

  struct Globals
  {
    bool       in_window;      // an operation of the container under test is executing
    int        internal;       // >0: monitor code is running (exclude from shims)
    uint64_t   epoch;          // operation counter; element events are tagged with it
    FaultState fault;
    long       ticks_total;
    long       window_allocs;  // allocate() calls in the current window (any allocator)
    long       window_deallocs;
    long       window_alloc_max_n;
    uint64_t   monitors;       // enabled monitor bits (1<<k for property Ck)
    const char *engine;
    const char *config;
    std::vector<Violation, MallocAlloc<Violation> > violations;
    long       violations_total;
    CaseMarker *marker;
    CaseMarker  local_marker;
    FILE       *out;           // JSON lines to the parent
    bool        verbose_trace;
    mstring     caseid;        // current case id
    mstring     opkey;         // current op's stable key part
    const char *also_prop;     // violations of disabled monitors are re-tagged to this property (fault runs: "C06")
    const char *also_prefix;   // ... but only monitors whose id starts with this prefix ("" = all)
  };

  inline Globals& G ()
  {
    static Globals *g = 0;
    if (! g)
    {
      void *mem = std::malloc (sizeof (Globals));
      g = new (mem) Globals ();
      g->in_window = false; g->internal = 0; g->epoch = 0;
      std::memset (&g->fault, 0, sizeof g->fault);
      g->fault.mask = TK_ALL;
      g->ticks_total = 0; g->window_allocs = 0; g->window_deallocs = 0; g->window_alloc_max_n = 0;
      g->monitors = ~0ull; g->engine = "?"; g->config = "?";
      g->violations_total = 0;
      std::memset (&g->local_marker, 0, sizeof g->local_marker);
      g->marker = &g->local_marker; g->out = stdout; g->verbose_trace = false; g->also_prop = 0; g->also_prefix = "";
    }
    return *g;
  }

  inline bool mon (int prop_number) { return (G ().monitors >> prop_number) & 1u; }
  // monitor wanted either for its own property or because the current phase re-tags it
  inline bool want (int prop_number)
  {
    Globals& g = G ();
    return mon (prop_number) || (g.also_prop && mon (std::atoi (g.also_prop + 1)));
  }

  struct Internal
  {
    Internal () { ++G ().internal; }
    ~Internal () { --G ().internal; }
  };

  inline mstring vformat (const char *fmt, va_list ap)
  {
    char buf[1024];
    vsnprintf (buf, sizeof buf, fmt, ap);
    return mstring (buf);
  }

  inline mstring format (const char *fmt, ...)
  {
    va_list ap; va_start (ap, fmt);
    mstring r = vformat (fmt, ap);
    va_end (ap);
    return r;
  }

  inline mstring json_escape (const mstring& s)
  {
    mstring r;
    for (size_t i = 0; i < s.size (); ++i)
    {
      unsigned char c = static_cast<unsigned char> (s[i]);
      if (c == '"' || c == '\\') { r += '\\'; r += static_cast<char> (c); }
      else if (c == '\n') r += "\\n";
      else if (c < 0x20) r += ' ';
      else r += static_cast<char> (c);
    }
    return r;
  }

  inline void emit_violation_line (const Violation& v)
  {
    FILE *o = G ().out;
    std::fprintf (o, "{\"type\":\"violation\",\"prop\":\"%s\",\"monitor\":\"%s\",\"key\":\"%s\",\"case\":\"%s\",\"msg\":\"%s\"}\n",
                  json_escape (v.prop).c_str (), json_escape (v.monitor).c_str (),
                  json_escape (v.key).c_str (), json_escape (v.caseid).c_str (),
                  json_escape (v.msg).c_str ());
    std::fflush (o);
  }

  // Report a violation. `prop` is "Cxx"; `monitor` a stable id.  The stable key is
  // engine|config-class is added by the python side; here: prop|monitor|opkey.
  inline void violate (const char *prop, const char *monitor, const char *fmt, ...)
  {
    Internal in;
    Globals& g = G ();
    int pn = std::atoi (prop + 1);
    if (! mon (pn))
    {
      if (g.also_prop && mon (std::atoi (g.also_prop + 1))
          && ! std::strncmp (monitor, g.also_prefix, std::strlen (g.also_prefix))) prop = g.also_prop;
      else return;
    }
    va_list ap; va_start (ap, fmt);
    Violation v;
    v.prop = prop; v.monitor = monitor;
    v.msg = vformat (fmt, ap);
    va_end (ap);
    v.msg += " | op: ";
    v.msg += const_cast<const char *> (g.marker->desc);
    v.key = mstring (prop) + "|" + monitor + "|" + g.opkey;
    v.caseid = g.caseid;
    ++g.violations_total;
    if (g.violations.size () < 200)
    {
      g.violations.push_back (v);
      emit_violation_line (v);
    }
  }

  // ---------------------------------------------------------------------------------------------
  inline void fault_reset (unsigned mask)
  {
    FaultState& f = G ().fault;
    f.armed = false; f.countdown = 0; f.second = 0; f.mask = mask; f.ticks = 0; f.fired = 0;
    f.fired_kind[0] = f.fired_kind[1] = 0; f.fired_at[0] = f.fired_at[1] = 0;
    f.inflight_at_second = 0;
  }

  inline void fault_arm (long k1, long k2 = 0)
  {
    FaultState& f = G ().fault;
    f.armed = k1 > 0; f.countdown = k1; f.second = k2;
  }

  // Called by every potentially-throwing member of an instrumented type.
  inline void tick (unsigned kind)
  {
    Globals& g = G ();
    if (! g.in_window || g.internal) return;
    ++g.ticks_total;
    FaultState& f = g.fault;
    if (! (f.mask & kind)) return;
    ++f.ticks;
    if (f.armed && --f.countdown == 0)
    {
      int idx = f.fired < 2 ? f.fired : 1;
      f.fired_kind[idx] = kind;
      f.fired_at[idx] = f.ticks;
      if (f.fired == 1)
      {
#if defined(__cpp_lib_uncaught_exceptions) || __cplusplus >= 201703L
        f.inflight_at_second = std::uncaught_exceptions ();
#else
        f.inflight_at_second = std::uncaught_exception () ? 1 : 0;
#endif
      }
      ++f.fired;
      if (f.second > 0) { f.countdown = f.second; f.second = 0; }
      else f.armed = false;
      if (kind == TK_ALLOC) throw InjectedBadAlloc ();
      TestFault tf; tf.kind = kind; tf.index = f.ticks;
      throw tf;
    }
  }

  // ---------------------------------------------------------------------------------------------
  // Case marker + death handlers.
  inline void marker_set (uint64_t case_index, int op_index, int phase)
  {
    CaseMarker *m = G ().marker;
    m->case_index = case_index; m->op_index = op_index; m->phase = phase;
  }

  inline void marker_desc (const char *desc, const char *key)
  {
    CaseMarker *m = G ().marker;
    std::strncpy (m->desc, desc, sizeof m->desc - 1); m->desc[sizeof m->desc - 1] = 0;
    std::strncpy (m->key, key, sizeof m->key - 1); m->key[sizeof m->key - 1] = 0;
  }

  inline void death_note (const char *what)
  {
    // async-signal-safe: only write(2)
    CaseMarker *m = G ().marker;
    char buf[900];
    int n = snprintf (buf, sizeof buf, "\nSVMON-DEATH kind=%s case=%llu op=%d phase=%d key=%s desc=%s\n",
                      what, static_cast<unsigned long long> (m->case_index), m->op_index, m->phase,
                      m->key, m->desc);
    if (n > 0) { ssize_t r = write (2, buf, static_cast<size_t> (n)); (void) r; }
  }

  inline void on_terminate ()
  {
    death_note ("terminate");
    _exit (70);
  }

  inline void on_signal (int sig)
  {
    death_note (sig == SIGABRT ? "abort" : sig == SIGSEGV ? "segv" : sig == SIGFPE ? "fpe" : sig == SIGALRM ? "timeout" : "signal");
    _exit (sig == SIGALRM ? 75 : 71);
  }

  // Per-case CPU-time watchdog (ITIMER_VIRTUAL counts only the CPU time this process consumes, so machine load
  // cannot fire it): a case that normally takes milliseconds and burns `seconds` of CPU is a hang.
  inline void on_cpu_timeout (int)
  {
    death_note ("hang");
    _exit (76);
  }

  inline void case_watchdog (unsigned seconds)
  {
    struct itimerval it;
    it.it_interval.tv_sec = 0; it.it_interval.tv_usec = 0;
    it.it_value.tv_sec = seconds; it.it_value.tv_usec = 0;
    setitimer (ITIMER_VIRTUAL, &it, 0);
  }

  inline void install_death_handlers ()
  {
    signal (SIGVTALRM, on_cpu_timeout);
    std::set_terminate (on_terminate);
    signal (SIGABRT, on_signal);
#ifndef SVMON_ASAN
    signal (SIGSEGV, on_signal);
    signal (SIGBUS, on_signal);
#endif
    signal (SIGFPE, on_signal);
    signal (SIGALRM, on_signal);
  }

  // ---------------------------------------------------------------------------------------------
  // Coverage accounting: distinct abstract tuples.
  struct Coverage
  {
    typedef std::map<mstring, long, std::less<mstring>, MallocAlloc<std::pair<const mstring, long> > > map_t;
    map_t tuples;     // abstract tuple -> count
    map_t counters;   // named counters
    long  evaluations;
    std::vector<mstring, MallocAlloc<mstring> > samples;
    Coverage () : evaluations (0) { }
    void tuple (const mstring& t) { ++tuples[t]; }
    void count (const char *name, long by = 1) { counters[mstring (name)] += by; }
    void sample (const mstring& s) { if (samples.size () < 6) samples.push_back (s); }
  };

  inline Coverage& COV ()
  {
    static Coverage *c = 0;
    if (! c) { void *m = std::malloc (sizeof (Coverage)); c = new (m) Coverage (); }
    return *c;
  }

  inline void emit_coverage ()
  {
    Internal in;
    FILE *o = G ().out;
    Coverage& c = COV ();
    std::fprintf (o, "{\"type\":\"coverage\",\"evaluations\":%ld,\"tuples\":{", c.evaluations);
    bool first = true;
    for (Coverage::map_t::iterator it = c.tuples.begin (); it != c.tuples.end (); ++it)
    {
      std::fprintf (o, "%s\"%s\":%ld", first ? "" : ",", json_escape (it->first).c_str (), it->second);
      first = false;
    }
    std::fprintf (o, "},\"counters\":{");
    first = true;
    for (Coverage::map_t::iterator it = c.counters.begin (); it != c.counters.end (); ++it)
    {
      std::fprintf (o, "%s\"%s\":%ld", first ? "" : ",", json_escape (it->first).c_str (), it->second);
      first = false;
    }
    std::fprintf (o, "},\"samples\":[");
    for (size_t i = 0; i < c.samples.size (); ++i)
      std::fprintf (o, "%s\"%s\"", i ? "," : "", json_escape (c.samples[i]).c_str ());
    std::fprintf (o, "]}\n");
    std::fflush (o);
    c.tuples.clear (); c.counters.clear (); c.samples.clear (); c.evaluations = 0;
  }

  // ---------------------------------------------------------------------------------------------
  // Fork-per-chunk runner.  `fn (first, last)` runs cases [first, last) in a child and reports via
  // G ().out (a pipe inherited as stdout).  If the child dies, the parent prints a death record
  // naming the case found in the shared marker and resumes after it.
  struct RunStats { long chunks; long deaths; };

  template <typename Fn>
  inline RunStats run_forked (uint64_t first, uint64_t last, uint64_t chunk, Fn fn, unsigned timeout_s = 600, long max_deaths = 12)
  {
    RunStats st; st.chunks = 0; st.deaths = 0;
    CaseMarker *shared = static_cast<CaseMarker *> (
      mmap (0, sizeof (CaseMarker), PROT_READ | PROT_WRITE, MAP_SHARED | MAP_ANONYMOUS, -1, 0));
    if (shared == MAP_FAILED) { std::perror ("mmap"); std::exit (2); }
    uint64_t next = first;
    while (next < last)
    {
      uint64_t end = next + chunk < last ? next + chunk : last;
      std::memset (shared, 0, sizeof *shared);
      shared->case_index = next;
      std::fflush (stdout); std::fflush (stderr);
      pid_t pid = fork ();
      if (pid < 0) { std::perror ("fork"); std::exit (2); }
      if (pid == 0)
      {
        G ().marker = shared;
        install_death_handlers ();
        alarm (timeout_s);
        fn (next, end);
        emit_coverage ();
        std::fflush (stdout);
#ifdef SVMON_GCOV
        __gcov_dump ();                          // selftest/coverage.py: children leave through _exit
#endif
        _exit (0);
      }
      int status = 0;
      waitpid (pid, &status, 0);
      ++st.chunks;
      bool ok = WIFEXITED (status) && WEXITSTATUS (status) == 0;
      if (ok) { next = end; continue; }
      ++st.deaths;
      const char *kind = "crash";
      if (WIFEXITED (status))
      {
        int ec = WEXITSTATUS (status);
        kind = ec == 70 ? "terminate" : ec == 71 ? "abort" : ec == 75 ? "timeout" : ec == 76 ? "hang" : "sanitizer-or-exit";
      }
      else if (WIFSIGNALED (status))
        kind = WTERMSIG (status) == SIGSEGV ? "segv" : WTERMSIG (status) == SIGABRT ? "abort" : "signal";
      mstring desc (const_cast<const char *> (shared->desc));
      mstring key (const_cast<const char *> (shared->key));
      std::fprintf (stdout, "{\"type\":\"death\",\"kind\":\"%s\",\"case\":%llu,\"op\":%d,\"phase\":%d,\"key\":\"%s\",\"desc\":\"%s\",\"status\":%d}\n",
                    kind, static_cast<unsigned long long> (shared->case_index), shared->op_index,
                    shared->phase, json_escape (key).c_str (), json_escape (desc).c_str (), status);
      std::fflush (stdout);
      next = shared->case_index + 1;   // skip the case that killed the child
      if (next <= first && shared->case_index < first) next = end;
      if (st.deaths >= max_deaths)
      {
        std::fprintf (stdout, "{\"type\":\"death-limit\",\"deaths\":%ld,\"stopped_at\":%llu,\"total\":%llu}\n", st.deaths,
                      static_cast<unsigned long long> (next), static_cast<unsigned long long> (last));
        std::fflush (stdout);
        break;
      }
    }
    munmap (shared, sizeof (CaseMarker));
    return st;
  }

  enum Outcome { OUT_NORMAL = 0, OUT_FAULT, OUT_FAULT_ALLOC, OUT_LENGTH, OUT_RANGE, OUT_BADALLOC, OUT_OTHER, OUT_SKIPPED };
  inline const char *outcome_name (int o)
  {
    static const char *n[] = { "normal", "fault", "fault-alloc", "length_error", "out_of_range", "bad_alloc", "other-exception", "skipped" };
    return n[o];
  }


  // argv helpers
  inline const char *arg_str (int argc, char **argv, const char *name, const char *dflt)
  {
    for (int i = 1; i + 1 < argc; ++i)
      if (! std::strcmp (argv[i], name)) return argv[i + 1];
    return dflt;
  }
  inline uint64_t arg_u64 (int argc, char **argv, const char *name, uint64_t dflt)
  {
    const char *s = arg_str (argc, argv, name, 0);
    return s ? std::strtoull (s, 0, 0) : dflt;
  }
  inline bool arg_flag (int argc, char **argv, const char *name)
  {
    for (int i = 1; i < argc; ++i)
      if (! std::strcmp (argv[i], name)) return true;
    return false;
  }
  inline uint64_t parse_monitors (const char *s)
  {
    // "C01,C05" -> bitmask; "all" -> everything
    if (! s || ! std::strcmp (s, "all")) return ~0ull;
    uint64_t m = 0;
    while (*s)
    {
      if (*s == 'C') { m |= 1ull << std::atoi (s + 1); }
      while (*s && *s != ',') ++s;
      if (*s == ',') ++s;
    }
    return m;
  }

} // namespace svmon

#ifdef SVMON_UBSAN_HOOK
// Wrap monitor (C12 "size arithmetic never wraps"): clang's unsigned-integer-overflow / implicit-conversion checks are
// compiled into the header's functions only (harness/include/svmon/ubsan_ignorelist.txt excludes everything else); the UBSan runtime
// calls this hook for every report, and the hook files it against the operation that is running.
extern "C" void __ubsan_get_current_report_data (const char **kind, const char **msg, const char **file, unsigned *line, unsigned *col, char **addr);
extern "C" void __ubsan_on_report (void)
{
  const char *kind = 0, *msg = 0, *file = 0; unsigned line = 0, col = 0; char *addr = 0;
  __ubsan_get_current_report_data (&kind, &msg, &file, &line, &col, &addr);
  if (! file || ! std::strstr (file, "small_vector.hpp")) return;
  static char monitor[96];
  std::snprintf (monitor, sizeof monitor, "wrap.%s", kind ? kind : "?");
  svmon::COV ().count ("ubsan-reports-in-header");
  svmon::violate ("C12", monitor, "%s (small_vector.hpp:%u:%u)", msg ? msg : "", line, col);
}
#endif

#endif
