// svmon/alloc.hpp -- allocation ledger, LedgerAlloc<T, Cfg> and the operator-new shim used for
// the std::allocator configuration.
#ifndef SVMON_ALLOC_HPP
#define SVMON_ALLOC_HPP

#include "core.hpp"
#include <unordered_map>
#include <memory>
#include <limits>
#include <type_traits>

namespace svmon
{

  struct Block
  {
    size_t   n;          // element count requested
    size_t   elem_size;
    int      alloc_id;   // id of the allocating allocator (0 for std::allocator / always-equal)
    bool     live;
    bool     in_window;  // allocated while an operation was executing
    uint64_t epoch;
    void    *raw;        // malloc block (with red zones)
  };

  static const size_t REDZONE = 64;
  static const unsigned char CANARY = 0xA5;
  static const unsigned char POISON_NEW = 0xCD;
  static const unsigned char POISON_FREE = 0xDD;

  struct Ledger
  {
    typedef std::unordered_map<const void *, Block, std::hash<const void *>,
                               std::equal_to<const void *>,
                               MallocAlloc<std::pair<const void *const, Block> > > map_t;
    map_t blocks;
    long  live;
    long  allocs;
    long  deallocs;
    long  max_request;

    Ledger () : live (0), allocs (0), deallocs (0), max_request (0) { }

    void *allocate (size_t n, size_t elem_size, size_t align, int id)
    {
      Internal in;
      Globals& g = G ();
      if (g.in_window)
      {
        ++g.window_allocs;
        if (static_cast<long> (n) > g.window_alloc_max_n) g.window_alloc_max_n = static_cast<long> (n);
      }
      if (static_cast<long> (n) > max_request) max_request = static_cast<long> (n);
      size_t bytes = n * elem_size;
      size_t front = REDZONE;
      while (front % align) ++front;
      unsigned char *raw = 0;
      if (align > 16)
      {
        void *m = 0;                                  // over-aligned element types: the block itself must start aligned
        if (posix_memalign (&m, align, front + bytes + REDZONE)) m = 0;
        raw = static_cast<unsigned char *> (m);
      }
      else
        raw = static_cast<unsigned char *> (std::malloc (front + bytes + REDZONE));
      if (! raw) { std::fputs ("svmon: ledger out of memory\n", stderr); std::abort (); }
      std::memset (raw, CANARY, front);
      static const bool no_poison = std::getenv ("SVMON_NO_POISON") != 0;   // valgrind runs: keep fresh blocks "undefined"
      if (! no_poison) std::memset (raw + front, POISON_NEW, bytes);
      std::memset (raw + front + bytes, CANARY, REDZONE);
      SVMON_POISON (raw, front);
      SVMON_POISON (raw + front + bytes, REDZONE);
      void *p = raw + front;
      Block b; b.n = n; b.elem_size = elem_size; b.alloc_id = id; b.live = true;
      b.in_window = g.in_window; b.epoch = g.epoch; b.raw = raw;
      blocks[p] = b;
      ++live; ++allocs;
      return p;
    }

    // returns false when the block is unknown (caller decides whether to pass through)
    bool deallocate (const void *p, size_t n, size_t elem_size, int id, bool always_equal)
    {
      Internal in;
      Globals& g = G ();
      if (g.in_window) ++g.window_deallocs;
      map_t::iterator it = blocks.find (p);
      if (it == blocks.end ())
      {
        violate ("C04", "ledger.dealloc-unknown", "deallocate (%p, %zu) of a block the ledger never issued", p, n);
        return false;
      }
      Block& b = it->second;
      if (! b.live)
      {
        violate ("C04", "ledger.double-free", "deallocate (%p, %zu) of a block that was already returned", p, n);
        return true;
      }
      if (b.n != n)
        violate ("C04", "ledger.dealloc-wrong-n", "deallocate (%p, n=%zu) but the block was allocated with n=%zu", p, n, b.n);
      if (! always_equal && b.alloc_id != id)
        violate ("C04", "ledger.dealloc-wrong-allocator",
                 "block %p allocated by allocator id %d returned through allocator id %d", p, b.alloc_id, id);
      check_canaries (p, b);
      unsigned char *raw = static_cast<unsigned char *> (b.raw);
      size_t front = static_cast<size_t> (static_cast<const unsigned char *> (p) - raw);
      SVMON_UNPOISON (raw, front + b.n * b.elem_size + REDZONE);
      std::memset (raw, POISON_FREE, front + b.n * b.elem_size + REDZONE);
      std::free (raw);
      (void) elem_size;
      blocks.erase (it);
      --live; ++deallocs;
      return true;
    }

    void check_canaries (const void *p, const Block& b)
    {
      unsigned char *raw = static_cast<unsigned char *> (b.raw);
      size_t front = static_cast<size_t> (static_cast<const unsigned char *> (p) - raw);
      size_t bytes = b.n * b.elem_size;
      SVMON_UNPOISON (raw, front);
      SVMON_UNPOISON (raw + front + bytes, REDZONE);
      bool bad = false;
      for (size_t i = 0; i < front && ! bad; ++i) bad = raw[i] != CANARY;
      for (size_t i = 0; i < REDZONE && ! bad; ++i) bad = raw[front + bytes + i] != CANARY;
      SVMON_POISON (raw, front);
      SVMON_POISON (raw + front + bytes, REDZONE);
      if (bad)
        violate ("C13", "ledger.canary", "bytes outside block %p (n=%zu) were overwritten", p, b.n);
    }

    const Block *find_live (const void *p) const
    {
      map_t::const_iterator it = blocks.find (p);
      return (it != blocks.end () && it->second.live) ? &it->second : 0;
    }
  };

  inline Ledger& LEDGER ()
  {
    static Ledger *l = 0;
    if (! l) { void *m = std::malloc (sizeof (Ledger)); l = new (m) Ledger (); }
    return *l;
  }

  // -------------------------------------------------------------------------------------------
  // Allocator configuration tags.  A *type* parameter (not non-type parameters) so that
  // std::allocator_traits can rebind LedgerAlloc<T, Cfg>.
  template <bool Pocca, bool Pocma, bool Pocs, bool AlwaysEq, typename SizeT = std::size_t,
            unsigned long MaxSize = 0, bool HasConstruct = false, bool ThrowingDefault = false,
            bool MarkSoccc = true>
  struct ACfg
  {
    static const bool pocca = Pocca;
    static const bool pocma = Pocma;
    static const bool pocs = Pocs;
    static const bool always_equal = AlwaysEq;
    typedef SizeT size_type;
    static const unsigned long max_size_cap = MaxSize;
    static const bool has_construct = HasConstruct;
    static const bool throwing_default = ThrowingDefault;
    static const bool mark_soccc = MarkSoccc;
  };

  static const int SOCCC_MARK = 0x100;

  struct AllocStats
  {
    long construct_calls;
    long destroy_calls;
    long soccc_calls;
  };
  inline AllocStats& ASTATS () { static AllocStats s = { 0, 0, 0 }; return s; }

  template <typename T, typename Cfg, bool HasMax = (Cfg::max_size_cap != 0)>
  struct LedgerAllocMax { };

  template <typename T, typename Cfg>
  struct LedgerAllocMax<T, Cfg, true>
  {
    typename Cfg::size_type max_size () const noexcept
    {
      return static_cast<typename Cfg::size_type> (Cfg::max_size_cap);
    }
  };

  template <typename T, typename Cfg, bool HasConstruct = Cfg::has_construct>
  struct LedgerAllocConstruct { };

  template <typename T, typename Cfg>
  struct LedgerAllocConstruct<T, Cfg, true>
  {
    // SFINAE-friendly, as a well-behaved user allocator would be: the container asks "can you construct from these?"
    template <typename U, typename ...Args,
              typename std::enable_if<std::is_constructible<U, Args...>::value>::type * = nullptr>
    void construct (U *p, Args&&... args)
    {
      ++ASTATS ().construct_calls;
      ::new (static_cast<void *> (p)) U (std::forward<Args> (args)...);
    }
    template <typename U>
    void destroy (U *p)
    {
      ++ASTATS ().destroy_calls;
      p->~U ();
    }
  };

  template <typename T, typename Cfg>
  struct LedgerAlloc : LedgerAllocMax<T, Cfg>, LedgerAllocConstruct<T, Cfg>
  {
    typedef T value_type;
    typedef typename Cfg::size_type size_type;
    typedef std::ptrdiff_t difference_type;
    typedef std::integral_constant<bool, Cfg::pocca> propagate_on_container_copy_assignment;
    typedef std::integral_constant<bool, Cfg::pocma> propagate_on_container_move_assignment;
    typedef std::integral_constant<bool, Cfg::pocs> propagate_on_container_swap;
    typedef std::integral_constant<bool, Cfg::always_equal> is_always_equal;
    typedef Cfg config;

    int id;

    LedgerAlloc () noexcept (! Cfg::throwing_default) : id (1)
    {
      if (Cfg::throwing_default) tick (TK_ALLOC_CTOR);
    }
    explicit LedgerAlloc (int i) noexcept : id (i) { }
    LedgerAlloc (const LedgerAlloc& o) noexcept : id (o.id) { }
    LedgerAlloc (LedgerAlloc&& o) noexcept : id (o.id) { }
    LedgerAlloc& operator= (const LedgerAlloc& o) noexcept { id = o.id; return *this; }
    LedgerAlloc& operator= (LedgerAlloc&& o) noexcept { id = o.id; return *this; }
    template <typename U>
    LedgerAlloc (const LedgerAlloc<U, Cfg>& o) noexcept : id (o.id) { }

    T *allocate (size_type n)
    {
      tick (TK_ALLOC);
      return static_cast<T *> (LEDGER ().allocate (static_cast<size_t> (n), sizeof (T), alignof (T), id));
    }

    void deallocate (T *p, size_type n) noexcept
    {
      LEDGER ().deallocate (p, static_cast<size_t> (n), sizeof (T), id, Cfg::always_equal);
    }

    LedgerAlloc select_on_container_copy_construction () const noexcept
    {
      ++ASTATS ().soccc_calls;
      return LedgerAlloc (Cfg::mark_soccc ? (id ^ SOCCC_MARK) : id);
    }

    // comparable with every rebound instance (Allocator requirements: a == b for B = rebind<U>)
    template <typename U>
    bool operator== (const LedgerAlloc<U, Cfg>& o) const noexcept { return Cfg::always_equal || id == o.id; }
    template <typename U>
    bool operator!= (const LedgerAlloc<U, Cfg>& o) const noexcept { return ! (*this == o); }
  };

  // ---------------------------------------------------------------------------------------------
  // Fancy pointer (Allocator requirements: NullablePointer + random access iterator over contiguous
  // storage, pointer_traits::pointer_to, conversions T -> const T -> void).  Deliberately NOT implicitly
  // convertible to a raw pointer.  Two words wide: the second word must always be derived from the first,
  // so a pointer value the container produced by anything but copying/arithmetic (uninitialised member,
  // byte garbage) is caught at its first use (monitor key `fancy.corrupt-pointer`).
  struct FancyStats { long derefs, arith, made, corrupt; };
  inline FancyStats& FSTATS () { static FancyStats s = { 0, 0, 0, 0 }; return s; }
  static const std::uintptr_t FANCY_SALT = static_cast<std::uintptr_t> (0x5AFE5AFE5AFE5AFEull);

  inline void fancy_corrupt (const void *p, std::uintptr_t salt)
  {
    ++FSTATS ().corrupt;
    violate ("C02", "fancy.corrupt-pointer", "a pointer value was used that no pointer operation produced (ptr %p, check word %lx)", p, static_cast<unsigned long> (salt));
  }

  template <typename T> struct FancyPtr;

  template <typename T>
  struct FancyPtrBase
  {
    T *p; std::uintptr_t salt;
    FancyPtrBase () noexcept : p (0), salt (FANCY_SALT) { }
    explicit FancyPtrBase (T *q) noexcept : p (q), salt (reinterpret_cast<std::uintptr_t> (const_cast<const volatile void *> (static_cast<const volatile void *> (q))) ^ FANCY_SALT) { }
    T *get () const noexcept
    {
      if (salt != (reinterpret_cast<std::uintptr_t> (const_cast<const volatile void *> (static_cast<const volatile void *> (p))) ^ FANCY_SALT)) fancy_corrupt (const_cast<const void *> (static_cast<const volatile void *> (p)), salt);
      return p;
    }
    explicit operator bool () const noexcept { return get () != 0; }
  };

  template <> struct FancyPtr<void> : FancyPtrBase<void>
  {
    typedef void element_type;
    template <typename U> using rebind = FancyPtr<U>;
    FancyPtr () noexcept { }
    FancyPtr (std::nullptr_t) noexcept { }
    explicit FancyPtr (void *q) noexcept : FancyPtrBase<void> (q) { }
    template <typename U, typename std::enable_if<! std::is_const<U>::value>::type * = nullptr>
    FancyPtr (const FancyPtr<U>& o) noexcept : FancyPtrBase<void> (o.get ()) { }
  };

  template <> struct FancyPtr<const void> : FancyPtrBase<const void>
  {
    typedef const void element_type;
    template <typename U> using rebind = FancyPtr<U>;
    FancyPtr () noexcept { }
    FancyPtr (std::nullptr_t) noexcept { }
    explicit FancyPtr (const void *q) noexcept : FancyPtrBase<const void> (q) { }
    template <typename U>
    FancyPtr (const FancyPtr<U>& o) noexcept : FancyPtrBase<const void> (o.get ()) { }
  };

  template <typename T>
  struct FancyPtr : FancyPtrBase<T>
  {
    typedef T element_type;
    typedef typename std::remove_cv<T>::type value_type;
    typedef std::ptrdiff_t difference_type;
    typedef T *pointer;
    typedef T& reference;
    typedef std::random_access_iterator_tag iterator_category;
#if defined (__cpp_lib_concepts) || (defined (__cpp_concepts) && __cplusplus > 201703L)
    typedef std::contiguous_iterator_tag iterator_concept;
#endif
    template <typename U> using rebind = FancyPtr<U>;

    FancyPtr () noexcept { }
    FancyPtr (std::nullptr_t) noexcept { }
    // The header converts raw pointers to `pointer` implicitly (inline storage, to_address round trips) and
    // static_casts void pointers to it, exactly as the repository's own pointer_wrapper test type allows; a pointer
    // type offering only pointer_traits::pointer_to does not compile with it (noted in DESIGN.md, outside C01-C20).
    FancyPtr (T *q) noexcept : FancyPtrBase<T> (q) { ++FSTATS ().made; }
    template <typename U = T, typename std::enable_if<std::is_const<U>::value, bool>::type = true>
    explicit FancyPtr (const void *q) noexcept : FancyPtrBase<T> (static_cast<T *> (q)) { }
    explicit FancyPtr (void *q) noexcept : FancyPtrBase<T> (static_cast<T *> (q)) { }
    template <typename U, typename std::enable_if<std::is_convertible<U *, T *>::value && ! std::is_same<U, T>::value>::type * = nullptr>
    FancyPtr (const FancyPtr<U>& o) noexcept : FancyPtrBase<T> (o.get ()) { }
    // void pointer -> object pointer is explicit, as static_cast is for raw pointers
    template <typename V, typename std::enable_if<std::is_void<V>::value && (std::is_const<T>::value || ! std::is_const<V>::value)>::type * = nullptr>
    explicit FancyPtr (const FancyPtr<V>& o) noexcept : FancyPtrBase<T> (static_cast<T *> (o.get ())) { }

    static FancyPtr pointer_to (T& r) noexcept { return FancyPtr (std::addressof (r)); }

    T& operator* () const noexcept { ++FSTATS ().derefs; return *this->get (); }
    T *operator-> () const noexcept { ++FSTATS ().derefs; return this->get (); }
    T& operator[] (difference_type n) const noexcept { ++FSTATS ().derefs; return this->get ()[n]; }
    FancyPtr& operator++ () noexcept { *this = FancyPtr (this->get () + 1); return *this; }
    FancyPtr operator++ (int) noexcept { FancyPtr t (*this); ++*this; return t; }
    FancyPtr& operator-- () noexcept { *this = FancyPtr (this->get () - 1); return *this; }
    FancyPtr operator-- (int) noexcept { FancyPtr t (*this); --*this; return t; }
    FancyPtr& operator+= (difference_type n) noexcept { ++FSTATS ().arith; *this = FancyPtr (this->get () + n); return *this; }
    FancyPtr& operator-= (difference_type n) noexcept { ++FSTATS ().arith; *this = FancyPtr (this->get () - n); return *this; }
    FancyPtr operator+ (difference_type n) const noexcept { ++FSTATS ().arith; return FancyPtr (this->get () + n); }
    FancyPtr operator- (difference_type n) const noexcept { ++FSTATS ().arith; return FancyPtr (this->get () - n); }
    friend FancyPtr operator+ (difference_type n, const FancyPtr& q) noexcept { return q + n; }
  };

  template <typename T, typename U>
  inline auto operator- (const FancyPtr<T>& a, const FancyPtr<U>& b) noexcept -> decltype (a.get () - b.get ()) { return a.get () - b.get (); }
  template <typename T, typename U> inline bool operator== (const FancyPtr<T>& a, const FancyPtr<U>& b) noexcept { return a.get () == b.get (); }
  template <typename T, typename U> inline bool operator!= (const FancyPtr<T>& a, const FancyPtr<U>& b) noexcept { return a.get () != b.get (); }
  template <typename T, typename U> inline bool operator<  (const FancyPtr<T>& a, const FancyPtr<U>& b) noexcept { return std::less<const volatile void *> () (a.get (), b.get ()); }
  template <typename T, typename U> inline bool operator>  (const FancyPtr<T>& a, const FancyPtr<U>& b) noexcept { return b < a; }
  template <typename T, typename U> inline bool operator<= (const FancyPtr<T>& a, const FancyPtr<U>& b) noexcept { return ! (b < a); }
  template <typename T, typename U> inline bool operator>= (const FancyPtr<T>& a, const FancyPtr<U>& b) noexcept { return ! (a < b); }
  template <typename T> inline bool operator== (const FancyPtr<T>& a, std::nullptr_t) noexcept { return a.get () == 0; }
  template <typename T> inline bool operator== (std::nullptr_t, const FancyPtr<T>& a) noexcept { return a.get () == 0; }
  template <typename T> inline bool operator!= (const FancyPtr<T>& a, std::nullptr_t) noexcept { return a.get () != 0; }
  template <typename T> inline bool operator!= (std::nullptr_t, const FancyPtr<T>& a) noexcept { return a.get () != 0; }

  // raw address of whatever a container hands out as `pointer`
  template <typename T> inline T *raw (T *p) noexcept { return p; }
  template <typename T> inline T *raw (const FancyPtr<T>& p) noexcept { return p.get (); }

  // LedgerAlloc whose `pointer` is FancyPtr<T>
  template <typename T, typename Cfg>
  struct FancyLedgerAlloc : LedgerAllocMax<T, Cfg>
  {
    typedef T value_type;
    typedef typename Cfg::size_type size_type;
    typedef std::ptrdiff_t difference_type;
    typedef FancyPtr<T> pointer;
    typedef FancyPtr<const T> const_pointer;
    typedef FancyPtr<void> void_pointer;
    typedef FancyPtr<const void> const_void_pointer;
    typedef std::integral_constant<bool, Cfg::pocca> propagate_on_container_copy_assignment;
    typedef std::integral_constant<bool, Cfg::pocma> propagate_on_container_move_assignment;
    typedef std::integral_constant<bool, Cfg::pocs> propagate_on_container_swap;
    typedef std::integral_constant<bool, Cfg::always_equal> is_always_equal;
    typedef Cfg config;

    int id;

    FancyLedgerAlloc () noexcept : id (1) { }
    explicit FancyLedgerAlloc (int i) noexcept : id (i) { }
    FancyLedgerAlloc (const FancyLedgerAlloc& o) noexcept : id (o.id) { }
    FancyLedgerAlloc& operator= (const FancyLedgerAlloc& o) noexcept { id = o.id; return *this; }
    template <typename U>
    FancyLedgerAlloc (const FancyLedgerAlloc<U, Cfg>& o) noexcept : id (o.id) { }

    pointer allocate (size_type n)
    {
      tick (TK_ALLOC);
      return pointer (static_cast<T *> (LEDGER ().allocate (static_cast<size_t> (n), sizeof (T), alignof (T), id)));
    }
    // allocate with a locality hint (the container passes one when it reallocates)
    pointer allocate (size_type n, const_void_pointer hint)
    {
      (void) hint.get ();
      return allocate (n);
    }

    void deallocate (pointer p, size_type n) noexcept
    {
      LEDGER ().deallocate (p.get (), static_cast<size_t> (n), sizeof (T), id, Cfg::always_equal);
    }

    FancyLedgerAlloc select_on_container_copy_construction () const noexcept
    {
      ++ASTATS ().soccc_calls;
      return FancyLedgerAlloc (Cfg::mark_soccc ? (id ^ SOCCC_MARK) : id);
    }

    template <typename U>
    bool operator== (const FancyLedgerAlloc<U, Cfg>& o) const noexcept { return Cfg::always_equal || id == o.id; }
    template <typename U>
    bool operator!= (const FancyLedgerAlloc<U, Cfg>& o) const noexcept { return ! (*this == o); }
  };

  template <typename A> struct is_ledger_alloc : std::false_type { };
  template <typename T, typename C> struct is_ledger_alloc<FancyLedgerAlloc<T, C> > : std::true_type { };
  template <typename T, typename C> struct is_ledger_alloc<LedgerAlloc<T, C> > : std::true_type { };

  template <typename A>
  inline typename std::enable_if<is_ledger_alloc<A>::value, int>::type alloc_id (const A& a) { return a.id; }
  template <typename A>
  inline typename std::enable_if<! is_ledger_alloc<A>::value, int>::type alloc_id (const A&) { return 0; }

  template <typename A>
  inline typename std::enable_if<is_ledger_alloc<A>::value, A>::type make_alloc (int id) { return A (id); }
  template <typename A>
  inline typename std::enable_if<! is_ledger_alloc<A>::value, A>::type make_alloc (int) { return A (); }

} // namespace svmon

// ---------------------------------------------------------------------------------------------
// operator new/delete shim for the std::allocator configuration.  Define SVMON_NEW_SHIM in exactly
// one TU.  Only allocations made while an operation window is open (and no monitor code is running)
// are entered in the ledger; everything else passes through to malloc/free.
#ifdef SVMON_NEW_SHIM
inline void *svmon_shim_new (std::size_t sz, std::size_t align)
{
  svmon::Globals& g = svmon::G ();
  if (g.in_window && ! g.internal)
  {
    svmon::tick (svmon::TK_ALLOC);
    return svmon::LEDGER ().allocate (sz, 1, align < 16 ? 16 : align, 0);
  }
  void *p = 0;
  if (align > 16) { if (posix_memalign (&p, align, sz ? sz : 1)) p = 0; }
  else p = std::malloc (sz ? sz : 1);
  if (! p) throw std::bad_alloc ();
  return p;
}
inline void svmon_shim_delete (void *p, std::size_t sz, bool sized) noexcept
{
  if (! p) return;
  svmon::Ledger& l = svmon::LEDGER ();
  if (! l.blocks.empty ())
  {
    svmon::Ledger::map_t::iterator it = l.blocks.find (p);
    if (it != l.blocks.end ())
    {
      l.deallocate (p, sized ? sz : it->second.n, 1, 0, true);
      return;
    }
  }
  std::free (p);
}
void *operator new (std::size_t sz) { return svmon_shim_new (sz, 16); }
void *operator new[] (std::size_t sz) { return svmon_shim_new (sz, 16); }
void operator delete (void *p) noexcept { svmon_shim_delete (p, 0, false); }
void operator delete[] (void *p) noexcept { svmon_shim_delete (p, 0, false); }
void operator delete (void *p, std::size_t sz) noexcept { svmon_shim_delete (p, sz, true); }
void operator delete[] (void *p, std::size_t sz) noexcept { svmon_shim_delete (p, sz, true); }
#if __cplusplus >= 201703L
void *operator new (std::size_t sz, std::align_val_t a) { return svmon_shim_new (sz, static_cast<std::size_t> (a)); }
void operator delete (void *p, std::align_val_t) noexcept { svmon_shim_delete (p, 0, false); }
void operator delete (void *p, std::size_t sz, std::align_val_t) noexcept { svmon_shim_delete (p, sz, true); }
#endif
#endif

#endif
