// svmon/alloc.hpp -- allocation ledger, LedgerAlloc<T, Cfg> and the operator-new shim used for
// the std::allocator configuration.
#ifndef SVMON_ALLOC_HPP
#define SVMON_ALLOC_HPP

#include "core.hpp"
#include <unordered_map>
#include <memory>
#include <limits>
#include <type_traits>

namespace svmon
{

  struct Block
  {
    size_t   n;          // element count requested
    size_t   elem_size;
    int      alloc_id;   // id of the allocating allocator (0 for std::allocator / always-equal)
    bool     live;
    bool     in_window;  // allocated while an operation was executing
    uint64_t epoch;
    void    *raw;        // malloc block (with red zones)
  };

  static const size_t REDZONE = 64;
  static const unsigned char CANARY = 0xA5;
  static const unsigned char POISON_NEW = 0xCD;
  static const unsigned char POISON_FREE = 0xDD;

  struct Ledger
  {
    typedef std::unordered_map<const void *, Block, std::hash<const void *>,
                               std::equal_to<const void *>,
                               MallocAlloc<std::pair<const void *const, Block> > > map_t;
    map_t blocks;
    long  live;
    long  allocs;
    long  deallocs;
    long  max_request;

    Ledger () : live (0), allocs (0), deallocs (0), max_request (0) { }

    void *allocate (size_t n, size_t elem_size, size_t align, int id)
    {
      Internal in;
      Globals& g = G ();
      if (g.in_window)
      {
        ++g.window_allocs;
        if (static_cast<long> (n) > g.window_alloc_max_n) g.window_alloc_max_n = static_cast<long> (n);
      }
      if (static_cast<long> (n) > max_request) max_request = static_cast<long> (n);
      size_t bytes = n * elem_size;
      size_t front = REDZONE;
      while (front % align) ++front;
      unsigned char *raw = static_cast<unsigned char *> (std::malloc (front + bytes + REDZONE));
      if (! raw) { std::fputs ("svmon: ledger out of memory\n", stderr); std::abort (); }
      std::memset (raw, CANARY, front);
      static const bool no_poison = std::getenv ("SVMON_NO_POISON") != 0;   // valgrind runs: keep fresh blocks "undefined"
      if (! no_poison) std::memset (raw + front, POISON_NEW, bytes);
      std::memset (raw + front + bytes, CANARY, REDZONE);
      SVMON_POISON (raw, front);
      SVMON_POISON (raw + front + bytes, REDZONE);
      void *p = raw + front;
      Block b; b.n = n; b.elem_size = elem_size; b.alloc_id = id; b.live = true;
      b.in_window = g.in_window; b.epoch = g.epoch; b.raw = raw;
      blocks[p] = b;
      ++live; ++allocs;
      return p;
    }

    // returns false when the block is unknown (caller decides whether to pass through)
    bool deallocate (const void *p, size_t n, size_t elem_size, int id, bool always_equal)
    {
      Internal in;
      Globals& g = G ();
      if (g.in_window) ++g.window_deallocs;
      map_t::iterator it = blocks.find (p);
      if (it == blocks.end ())
      {
        violate ("C04", "ledger.dealloc-unknown", "deallocate (%p, %zu) of a block the ledger never issued", p, n);
        return false;
      }
      Block& b = it->second;
      if (! b.live)
      {
        violate ("C04", "ledger.double-free", "deallocate (%p, %zu) of a block that was already returned", p, n);
        return true;
      }
      if (b.n != n)
        violate ("C04", "ledger.dealloc-wrong-n", "deallocate (%p, n=%zu) but the block was allocated with n=%zu", p, n, b.n);
      if (! always_equal && b.alloc_id != id)
        violate ("C04", "ledger.dealloc-wrong-allocator",
                 "block %p allocated by allocator id %d returned through allocator id %d", p, b.alloc_id, id);
      check_canaries (p, b);
      unsigned char *raw = static_cast<unsigned char *> (b.raw);
      size_t front = static_cast<size_t> (static_cast<const unsigned char *> (p) - raw);
      SVMON_UNPOISON (raw, front + b.n * b.elem_size + REDZONE);
      std::memset (raw, POISON_FREE, front + b.n * b.elem_size + REDZONE);
      std::free (raw);
      (void) elem_size;
      blocks.erase (it);
      --live; ++deallocs;
      return true;
    }

    void check_canaries (const void *p, const Block& b)
    {
      unsigned char *raw = static_cast<unsigned char *> (b.raw);
      size_t front = static_cast<size_t> (static_cast<const unsigned char *> (p) - raw);
      size_t bytes = b.n * b.elem_size;
      SVMON_UNPOISON (raw, front);
      SVMON_UNPOISON (raw + front + bytes, REDZONE);
      bool bad = false;
      for (size_t i = 0; i < front && ! bad; ++i) bad = raw[i] != CANARY;
      for (size_t i = 0; i < REDZONE && ! bad; ++i) bad = raw[front + bytes + i] != CANARY;
      SVMON_POISON (raw, front);
      SVMON_POISON (raw + front + bytes, REDZONE);
      if (bad)
        violate ("C13", "ledger.canary", "bytes outside block %p (n=%zu) were overwritten", p, b.n);
    }

    const Block *find_live (const void *p) const
    {
      map_t::const_iterator it = blocks.find (p);
      return (it != blocks.end () && it->second.live) ? &it->second : 0;
    }
  };

  inline Ledger& LEDGER ()
  {
    static Ledger *l = 0;
    if (! l) { void *m = std::malloc (sizeof (Ledger)); l = new (m) Ledger (); }
    return *l;
  }

  // -------------------------------------------------------------------------------------------
  // Allocator configuration tags.  A *type* parameter (not non-type parameters) so that
  // std::allocator_traits can rebind LedgerAlloc<T, Cfg>.
  template <bool Pocca, bool Pocma, bool Pocs, bool AlwaysEq, typename SizeT = std::size_t,
            unsigned long MaxSize = 0, bool HasConstruct = false, bool ThrowingDefault = false,
            bool MarkSoccc = true>
  struct ACfg
  {
    static const bool pocca = Pocca;
    static const bool pocma = Pocma;
    static const bool pocs = Pocs;
    static const bool always_equal = AlwaysEq;
    typedef SizeT size_type;
    static const unsigned long max_size_cap = MaxSize;
    static const bool has_construct = HasConstruct;
    static const bool throwing_default = ThrowingDefault;
    static const bool mark_soccc = MarkSoccc;
  };

  static const int SOCCC_MARK = 0x100;

  struct AllocStats
  {
    long construct_calls;
    long destroy_calls;
    long soccc_calls;
  };
  inline AllocStats& ASTATS () { static AllocStats s = { 0, 0, 0 }; return s; }

  template <typename T, typename Cfg, bool HasMax = (Cfg::max_size_cap != 0)>
  struct LedgerAllocMax { };

  template <typename T, typename Cfg>
  struct LedgerAllocMax<T, Cfg, true>
  {
    typename Cfg::size_type max_size () const noexcept
    {
      return static_cast<typename Cfg::size_type> (Cfg::max_size_cap);
    }
  };

  template <typename T, typename Cfg, bool HasConstruct = Cfg::has_construct>
  struct LedgerAllocConstruct { };

  template <typename T, typename Cfg>
  struct LedgerAllocConstruct<T, Cfg, true>
  {
    // SFINAE-friendly, as a well-behaved user allocator would be: the container asks "can you construct from these?"
    template <typename U, typename ...Args,
              typename std::enable_if<std::is_constructible<U, Args...>::value>::type * = nullptr>
    void construct (U *p, Args&&... args)
    {
      ++ASTATS ().construct_calls;
      ::new (static_cast<void *> (p)) U (std::forward<Args> (args)...);
    }
    template <typename U>
    void destroy (U *p)
    {
      ++ASTATS ().destroy_calls;
      p->~U ();
    }
  };

  template <typename T, typename Cfg>
  struct LedgerAlloc : LedgerAllocMax<T, Cfg>, LedgerAllocConstruct<T, Cfg>
  {
    typedef T value_type;
    typedef typename Cfg::size_type size_type;
    typedef std::ptrdiff_t difference_type;
    typedef std::integral_constant<bool, Cfg::pocca> propagate_on_container_copy_assignment;
    typedef std::integral_constant<bool, Cfg::pocma> propagate_on_container_move_assignment;
    typedef std::integral_constant<bool, Cfg::pocs> propagate_on_container_swap;
    typedef std::integral_constant<bool, Cfg::always_equal> is_always_equal;
    typedef Cfg config;

    int id;

    LedgerAlloc () noexcept (! Cfg::throwing_default) : id (1)
    {
      if (Cfg::throwing_default) tick (TK_ALLOC_CTOR);
    }
    explicit LedgerAlloc (int i) noexcept : id (i) { }
    LedgerAlloc (const LedgerAlloc& o) noexcept : id (o.id) { }
    LedgerAlloc (LedgerAlloc&& o) noexcept : id (o.id) { }
    LedgerAlloc& operator= (const LedgerAlloc& o) noexcept { id = o.id; return *this; }
    LedgerAlloc& operator= (LedgerAlloc&& o) noexcept { id = o.id; return *this; }
    template <typename U>
    LedgerAlloc (const LedgerAlloc<U, Cfg>& o) noexcept : id (o.id) { }

    T *allocate (size_type n)
    {
      tick (TK_ALLOC);
      return static_cast<T *> (LEDGER ().allocate (static_cast<size_t> (n), sizeof (T), alignof (T), id));
    }

    void deallocate (T *p, size_type n) noexcept
    {
      LEDGER ().deallocate (p, static_cast<size_t> (n), sizeof (T), id, Cfg::always_equal);
    }

    LedgerAlloc select_on_container_copy_construction () const noexcept
    {
      ++ASTATS ().soccc_calls;
      return LedgerAlloc (Cfg::mark_soccc ? (id ^ SOCCC_MARK) : id);
    }

    // comparable with every rebound instance (Allocator requirements: a == b for B = rebind<U>)
    template <typename U>
    bool operator== (const LedgerAlloc<U, Cfg>& o) const noexcept { return Cfg::always_equal || id == o.id; }
    template <typename U>
    bool operator!= (const LedgerAlloc<U, Cfg>& o) const noexcept { return ! (*this == o); }
  };

  template <typename A> struct is_ledger_alloc : std::false_type { };
  template <typename T, typename C> struct is_ledger_alloc<LedgerAlloc<T, C> > : std::true_type { };

  template <typename A>
  inline typename std::enable_if<is_ledger_alloc<A>::value, int>::type alloc_id (const A& a) { return a.id; }
  template <typename A>
  inline typename std::enable_if<! is_ledger_alloc<A>::value, int>::type alloc_id (const A&) { return 0; }

  template <typename A>
  inline typename std::enable_if<is_ledger_alloc<A>::value, A>::type make_alloc (int id) { return A (id); }
  template <typename A>
  inline typename std::enable_if<! is_ledger_alloc<A>::value, A>::type make_alloc (int) { return A (); }

} // namespace svmon

// ---------------------------------------------------------------------------------------------
// operator new/delete shim for the std::allocator configuration.  Define SVMON_NEW_SHIM in exactly
// one TU.  Only allocations made while an operation window is open (and no monitor code is running)
// are entered in the ledger; everything else passes through to malloc/free.
#ifdef SVMON_NEW_SHIM
inline void *svmon_shim_new (std::size_t sz, std::size_t align)
{
  svmon::Globals& g = svmon::G ();
  if (g.in_window && ! g.internal)
  {
    svmon::tick (svmon::TK_ALLOC);
    return svmon::LEDGER ().allocate (sz, 1, align < 16 ? 16 : align, 0);
  }
  void *p = 0;
  if (align > 16) { if (posix_memalign (&p, align, sz ? sz : 1)) p = 0; }
  else p = std::malloc (sz ? sz : 1);
  if (! p) throw std::bad_alloc ();
  return p;
}
inline void svmon_shim_delete (void *p, std::size_t sz, bool sized) noexcept
{
  if (! p) return;
  svmon::Ledger& l = svmon::LEDGER ();
  if (! l.blocks.empty ())
  {
    svmon::Ledger::map_t::iterator it = l.blocks.find (p);
    if (it != l.blocks.end ())
    {
      l.deallocate (p, sized ? sz : it->second.n, 1, 0, true);
      return;
    }
  }
  std::free (p);
}
void *operator new (std::size_t sz) { return svmon_shim_new (sz, 16); }
void *operator new[] (std::size_t sz) { return svmon_shim_new (sz, 16); }
void operator delete (void *p) noexcept { svmon_shim_delete (p, 0, false); }
void operator delete[] (void *p) noexcept { svmon_shim_delete (p, 0, false); }
void operator delete (void *p, std::size_t sz) noexcept { svmon_shim_delete (p, sz, true); }
void operator delete[] (void *p, std::size_t sz) noexcept { svmon_shim_delete (p, sz, true); }
#if __cplusplus >= 201703L
void *operator new (std::size_t sz, std::align_val_t a) { return svmon_shim_new (sz, static_cast<std::size_t> (a)); }
void operator delete (void *p, std::align_val_t) noexcept { svmon_shim_delete (p, 0, false); }
void operator delete (void *p, std::size_t sz, std::align_val_t) noexcept { svmon_shim_delete (p, sz, true); }
#endif
#endif

#endif
