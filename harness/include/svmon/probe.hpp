// svmon/probe.hpp -- snapshots and the storage-invariant probe (C02), usable from any engine.
#ifndef SVMON_PROBE_HPP
#define SVMON_PROBE_HPP

#include "core.hpp"
#include "registry.hpp"
#include "alloc.hpp"
#include <gch/small_vector.hpp>
#include <iterator>

namespace svmon
{
  template <typename X> using mvector = std::vector<X, MallocAlloc<X> >;

  struct Snap
  {
    bool          live;
    size_t        size, cap;
    const char   *data;
    size_t        esz;
    bool          inlined;
    int           aid;
    unsigned      N;
    mvector<int>      values;
    mvector<unsigned> serials;
    Snap () : live (false), size (0), cap (0), data (0), esz (1), inlined (true), aid (0), N (0) { }
    const void *addr (size_t i) const { return data + i * esz; }
  };

  template <typename V>
  inline void take_snap (const V& v, Snap& s)
  {
    Internal in;
    s.live = true;
    s.size = v.size (); s.cap = v.capacity ();
    s.data = reinterpret_cast<const char *> (raw (v.data ()));
    s.esz = sizeof (typename V::value_type);
    s.inlined = v.inlined ();
    s.aid = alloc_id (v.get_allocator ());
    s.N = V::inline_capacity_v;
    s.values.clear (); s.serials.clear ();
    const typename V::value_type *p = raw (v.data ());
    for (size_t i = 0; i < s.size; ++i)
    {
      s.values.push_back (value_of (p[i]));
      s.serials.push_back (serial_of (p[i]));
    }
  }

  template <typename A> struct alloc_always_equal
    : std::integral_constant<bool, std::allocator_traits<A>::is_always_equal::value> { };

  // C02: the probe.  `tag` says when it runs (after-op, after-throw, moved-from, ...).
  template <typename V>
  inline void probe (const V& cv, const char *tag, int slot)
  {
    typedef typename V::value_type T;
    typedef typename V::allocator_type A;
    Internal in;
    V& v = const_cast<V&> (cv);
    const unsigned N = V::inline_capacity_v;
    const size_t size = cv.size (), cap = cv.capacity (), maxs = cv.max_size ();
    const char *obj_b = reinterpret_cast<const char *> (&cv);
    const char *obj_e = obj_b + sizeof (V);
    const T *d = raw (cv.data ());
    const char *db = reinterpret_cast<const char *> (d);

#define SVMON_P(cond, mon, ...) do { if (! (cond)) violate ("C02", mon, __VA_ARGS__); } while (0)

    SVMON_P (size <= cap, "probe.size-gt-capacity", "[%s slot %d] size %zu > capacity %zu", tag, slot, size, cap);
    SVMON_P (cap >= N, "probe.capacity-lt-N", "[%s slot %d] capacity %zu < inline capacity %u", tag, slot, cap, N);
    SVMON_P (cap <= (maxs > N ? maxs : N), "probe.capacity-gt-max", "[%s slot %d] capacity %zu > max(max_size %zu, N %u)", tag, slot, cap, maxs, N);
    SVMON_P (cv.inlined () == (cap == N), "probe.inlined-vs-capacity", "[%s slot %d] inlined()=%d but capacity %zu, N %u", tag, slot, int (cv.inlined ()), cap, N);
    SVMON_P (cv.inlinable () == (size <= N), "probe.inlinable", "[%s slot %d] inlinable()=%d but size %zu, N %u", tag, slot, int (cv.inlinable ()), size, N);
    SVMON_P (V::inline_capacity () == N, "probe.inline_capacity", "[%s slot %d] inline_capacity() %zu != N %u", tag, slot, size_t (V::inline_capacity ()), N);
    SVMON_P (cv.empty () == (size == 0), "probe.empty", "[%s slot %d] empty()=%d size %zu", tag, slot, int (cv.empty ()), size);
    // storage that holds (or may hold) elements must be aligned for them, inline buffer and allocator blocks alike
    SVMON_P (cap == 0 || d == 0 || reinterpret_cast<std::uintptr_t> (d) % alignof (T) == 0, "probe.data-misaligned",
             "[%s slot %d] data() %p is not aligned to alignof(T) = %zu", tag, slot, (const void *) d, alignof (T));
    bool inside = d != 0 && db >= obj_b && db + N * sizeof (T) <= obj_e;
    if (cv.inlined ())
    {
      if (N == 0)
        SVMON_P (d == 0 || inside || true, "probe.n0-data", "[%s slot %d] unexpected data()", tag, slot);
      else
        SVMON_P (inside, "probe.inline-data-outside-object", "[%s slot %d] inlined but data() %p not inside object [%p,%p)", tag, slot, (const void *) d, (const void *) obj_b, (const void *) obj_e);
      if (N == 0)
        SVMON_P (LEDGER ().find_live (d) == 0, "probe.inline-data-is-heap-block", "[%s slot %d] N=0 inlined container's data() %p is a live heap block", tag, slot, (const void *) d);
    }
    else
    {
      SVMON_P (! (db >= obj_b && db < obj_e), "probe.heap-data-inside-object", "[%s slot %d] not inlined but data() %p lies inside the object", tag, slot, (const void *) d);
      const Block *b = LEDGER ().find_live (d);
      bool ledgered = is_ledger_alloc<A>::value;
#ifdef SVMON_NEW_SHIM
      ledgered = true;
#endif
      if (ledgered)
      {
        SVMON_P (b != 0, "probe.heap-data-not-live-block", "[%s slot %d] data() %p is not a live allocator block", tag, slot, (const void *) d);
        if (b)
        {
          SVMON_P (b->n * b->elem_size == cap * sizeof (T), "probe.block-size-vs-capacity", "[%s slot %d] block holds %zu bytes but capacity() is %zu elements of %zu bytes", tag, slot, b->n * b->elem_size, cap, sizeof (T));
          if (is_ledger_alloc<A>::value && ! alloc_always_equal<A>::value)
            SVMON_P (b->alloc_id == alloc_id (cv.get_allocator ()), "probe.block-owner-vs-get_allocator", "[%s slot %d] block allocated by allocator id %d but get_allocator() has id %d", tag, slot, b->alloc_id, alloc_id (cv.get_allocator ()));
        }
      }
    }
    // contiguity and iterator agreement
    SVMON_P (static_cast<size_t> (v.end () - v.begin ()) == size, "probe.end-minus-begin", "[%s slot %d] end()-begin() != size()", tag, slot);
    SVMON_P (static_cast<size_t> (cv.end () - cv.begin ()) == size, "probe.cend-minus-cbegin", "[%s slot %d] const end()-begin() != size()", tag, slot);
    SVMON_P (static_cast<size_t> (cv.cend () - cv.cbegin ()) == size, "probe.cend-minus-cbegin", "[%s slot %d] cend()-cbegin() != size()", tag, slot);
    SVMON_P (static_cast<size_t> (v.rend () - v.rbegin ()) == size, "probe.rend-minus-rbegin", "[%s slot %d] rend()-rbegin() != size()", tag, slot);
    SVMON_P (static_cast<size_t> (cv.crend () - cv.crbegin ()) == size, "probe.rend-minus-rbegin", "[%s slot %d] crend()-crbegin() != size()", tag, slot);
    SVMON_P (v.rbegin ().base () == v.end (), "probe.rbegin-base", "[%s slot %d] rbegin().base() != end()", tag, slot);
    SVMON_P (v.rend ().base () == v.begin (), "probe.rend-base", "[%s slot %d] rend().base() != begin()", tag, slot);
    SVMON_P (size == 0 || &*v.begin () == d, "probe.begin-vs-data", "[%s slot %d] &*begin() != data()", tag, slot);
    SVMON_P (cv.begin () == cv.cbegin () && cv.end () == cv.cend (), "probe.const-iterators", "[%s slot %d] const begin/end disagree with cbegin/cend", tag, slot);
    SVMON_P (v.data () == cv.data (), "probe.data-const", "[%s slot %d] data() const/non-const disagree", tag, slot);
    for (size_t i = 0; i < size; ++i)
      if (&cv[i] != d + i || &v[i] != d + i || &cv.at (static_cast<typename V::size_type> (i)) != d + i)
      {
        SVMON_P (false, "probe.contiguity", "[%s slot %d] &v[%zu] != data()+%zu", tag, slot, i, i);
        break;
      }
    if (size)
    {
      SVMON_P (&cv.front () == d, "probe.front", "[%s slot %d] &front() != data()", tag, slot);
      SVMON_P (&cv.back () == d + (size - 1), "probe.back", "[%s slot %d] &back() != data()+size-1", tag, slot);
    }
    // non-member accessors agree with members
    SVMON_P (gch::begin (v) == v.begin () && gch::end (v) == v.end () && gch::cbegin (cv) == cv.cbegin ()
             && gch::cend (cv) == cv.cend () && gch::rbegin (v) == v.rbegin () && gch::rend (v) == v.rend ()
             && gch::crbegin (cv) == cv.crbegin () && gch::crend (cv) == cv.crend (),
             "probe.nonmember-iterators", "[%s slot %d] non-member begin/end family disagrees with members", tag, slot);
    SVMON_P (gch::data (v) == v.data () && gch::data (cv) == cv.data () && gch::size (cv) == cv.size ()
             && gch::empty (cv) == cv.empty () && static_cast<size_t> (gch::ssize (cv)) == size,
             "probe.nonmember-observers", "[%s slot %d] non-member data/size/ssize/empty disagree with members", tag, slot);
#undef SVMON_P
  }

} // namespace svmon

#endif
