// svmon/hist_engine.hpp -- templated part of the history engine: executes ops on real
// gch::small_vector instances.
#ifndef SVMON_HIST_ENGINE_HPP
#define SVMON_HIST_ENGINE_HPP

#include "hist_base.hpp"
#include <initializer_list>
#include <memory>

namespace svmon
{

  template <typename V>
  struct Slot
  {
    unsigned char front[64];
    alignas (V) unsigned char storage[sizeof (V)];
    unsigned char back[64];
    bool live;

    Slot () : live (false)
    {
      std::memset (front, 0x5A, sizeof front);
      std::memset (back, 0x5A, sizeof back);
      SVMON_POISON (front, sizeof front);
      SVMON_POISON (back, sizeof back);
    }
    ~Slot ()
    {
      SVMON_UNPOISON (front, sizeof front);
      SVMON_UNPOISON (back, sizeof back);
    }
    void *mem () { return storage; }
    V& get () { return *reinterpret_cast<V *> (storage); }
    void destroy () { if (live) { get ().~V (); live = false; } }
    bool canaries_ok ()
    {
      SVMON_UNPOISON (front, sizeof front);
      SVMON_UNPOISON (back, sizeof back);
      bool ok = true;
      for (size_t i = 0; i < sizeof front; ++i) ok = ok && front[i] == 0x5A && back[i] == 0x5A;
      SVMON_POISON (front, sizeof front);
      SVMON_POISON (back, sizeof back);
      return ok;
    }
  };

  // harness-owned element built from an int (outside the operation window)
  template <typename T>
  struct Ext
  {
    alignas (T) unsigned char buf[sizeof (T)];
    explicit Ext (int v) { ::new (static_cast<void *> (buf)) T (v); }
    ~Ext () { get ().~T (); }
    T& get () { return *reinterpret_cast<T *> (buf); }
    Ext (const Ext&) = delete;
  };

  template <typename E> inline E make_elem (int v, E *) { return E (v); }
  inline Val make_elem (int v, Val *) { Val x; x.v = v; return x; }

  // exact-size malloc'ed array of E built from v0, v0+1, ...; optional guard element at [n]
  template <typename E>
  struct SrcArr
  {
    E     *p;
    size_t n, total;
    SrcArr (size_t n_, int v0, bool guard) : n (n_), total (n_ + (guard ? 1 : 0))
    {
      void *m = 0;
      if (alignof (E) > 16) { if (posix_memalign (&m, alignof (E), total ? total * sizeof (E) : alignof (E))) m = 0; }
      else m = std::malloc (total ? total * sizeof (E) : 1);
      p = static_cast<E *> (m);
      for (size_t i = 0; i < n; ++i) ::new (static_cast<void *> (p + i)) E (make_elem (v0 + static_cast<int> (i), static_cast<E *> (0)));
      if (guard) ::new (static_cast<void *> (p + n)) E (make_elem (-999, static_cast<E *> (0)));
    }
    ~SrcArr ()
    {
      for (size_t i = 0; i < total; ++i) p[i].~E ();
      std::free (p);
    }
    SrcArr (const SrcArr&) = delete;
  };

  inline void open_window ()
  {
    Globals& g = G ();
    ++g.epoch;
    REG ().begin_epoch ();
    g.window_allocs = 0; g.window_deallocs = 0; g.window_alloc_max_n = 0;
    g.in_window = true;
  }
  inline void close_window () { G ().in_window = false; }

  template <typename F>
  inline Outcome guarded (F&& f)
  {
    Outcome o = OUT_NORMAL;
    open_window ();
    try { f (); }
    catch (const TestFault&) { o = OUT_FAULT; }
    catch (const InjectedBadAlloc&) { o = OUT_FAULT_ALLOC; }
    catch (const std::length_error&) { o = OUT_LENGTH; }
    catch (const std::out_of_range&) { o = OUT_RANGE; }
    catch (const std::bad_alloc&) { o = OUT_BADALLOC; }
    catch (...) { o = OUT_OTHER; }
    close_window ();
    return o;
  }

  template <typename T, typename A, unsigned NA, unsigned NB>
  struct HistEngine : HistBase
  {
    typedef gch::small_vector<T, NA, A> V0;
    typedef gch::small_vector<T, NB, A> V1;
    static constexpr bool copyable = std::is_copy_constructible<T>::value;
    static constexpr bool defctor = std::is_default_constructible<T>::value;
    static constexpr bool from_val = std::is_constructible<T, Val>::value;

    Slot<V0> s0;
    Slot<V1> s1, s2;

    HistEngine ()
    {
      info[0].N = NA; info[1].N = NB; info[2].N = NB;
      feat.tracked = is_tracked<T>::value;
      feat.copyable = copyable; feat.def_ctor = defctor; feat.from_val = from_val;
      feat.nothrow_move = std::is_nothrow_move_constructible<T>::value;
      feat.std_alloc = std::is_same<A, std::allocator<T> >::value;
      feat.ledgered = is_ledger_alloc<A>::value;
#ifdef SVMON_NEW_SHIM
      feat.ledgered = true;
#endif
      typedef std::allocator_traits<A> AT;
      feat.pocca = AT::propagate_on_container_copy_assignment::value;
      feat.pocma = AT::propagate_on_container_move_assignment::value;
      feat.pocs = AT::propagate_on_container_swap::value;
      feat.always_equal = AT::is_always_equal::value;
      feat.mark_soccc = mark_soccc_of (static_cast<A *> (0));
      feat.has_construct = false;
      feat.tname = flavour_name<T>::get ();
    }
    ~HistEngine () { s0.destroy (); s1.destroy (); s2.destroy (); }

    template <typename TT, typename C> static bool mark_soccc_of (LedgerAlloc<TT, C> *) { return C::mark_soccc; }
    template <typename TT, typename C> static bool mark_soccc_of (FancyLedgerAlloc<TT, C> *) { return C::mark_soccc; }
    static bool mark_soccc_of (void *) { return false; }

    template <typename F> void visit_slot (int i, F&& f)
    {
      switch (i) { case 0: f (s0); break; case 1: f (s1); break; default: f (s2); break; }
    }
    template <typename F> void visit_slot2 (int i, int j, F&& f)
    {
      visit_slot (i, [&] (auto& a) { this->visit_slot (j, [&] (auto& b) { f (a, b); }); });
    }

    // ---- virtuals
    void snap_all (Snap *out) override
    {
      for (int i = 0; i < NSLOT; ++i)
        visit_slot (i, [&] (auto& sl) {
          if (sl.live) take_snap (sl.get (), out[i]);
          else { out[i] = Snap (); out[i].N = info[i].N; }
        });
    }

    void probe_all (const char *tag) override
    {
      for (int i = 0; i < NSLOT; ++i)
        visit_slot (i, [&] (auto& sl) {
          if (sl.live) probe (sl.get (), tag, i);
          if (! sl.canaries_ok ())
            violate ("C02", "arena.canary", "bytes around container object v%d were overwritten (write outside the object)", i);
        });
    }

    void reset_pool () override
    {
      destroy_all ();
      for (int i = 0; i < NSLOT; ++i)
        visit_slot (i, [&] (auto& sl) {
          typedef typename std::remove_reference<decltype (sl.get ())>::type V;
          ::new (sl.mem ()) V ();
          sl.live = true;
          info[i].live = true; info[i].model.clear (); info[i].exp_aid = 1;
        });
    }

    void destroy_all () override
    {
      for (int i = 0; i < NSLOT; ++i)
        visit_slot (i, [&] (auto& sl) { sl.destroy (); info[i].live = false; });
    }

    void revive (int slot) override
    {
      visit_slot (slot, [&] (auto& sl) {
        typedef typename std::remove_reference<decltype (sl.get ())>::type V;
        if (sl.live) return;
        ::new (sl.mem ()) V ();
        sl.live = true;
        info[slot].live = true; info[slot].model.clear (); info[slot].exp_aid = 1;
      });
    }

    void read_check (int slot) override
    {
      visit_slot (slot, [&] (auto& sl) {
        if (! sl.live) return;
        Internal in;
        auto& v = sl.get ();
        const auto& cv = v;
        typedef typename std::remove_reference<decltype (v)>::type V;
        const mvector<int>& m = info[slot].model;
        if (v.size () != m.size ()) return;   // already reported by the snapshot comparison
        size_t i = 0; bool ok = true;
        for (const auto& e : cv) { ok = ok && i < m.size () && value_of (e) == m[i]; ++i; }
        ok = ok && i == m.size ();
        for (i = 0; i < m.size (); ++i)
        {
          typename V::size_type k = static_cast<typename V::size_type> (i);
          ok = ok && value_of (v[k]) == m[i] && value_of (cv.at (k)) == m[i] && value_of (cv.data ()[i]) == m[i];
        }
        i = m.size ();
        for (auto it = cv.rbegin (); it != cv.rend (); ++it) { --i; ok = ok && value_of (*it) == m[i]; }
        if (! m.empty ()) ok = ok && value_of (cv.front ()) == m.front () && value_of (cv.back ()) == m.back ();
        if (! ok)
          violate ("C01", "model.read-paths", "v%d: range-for / operator[] / at / data() / reverse iteration / front / back disagree with the model", slot);
        // iterator algebra (the random-access requirements a std::vector user relies on): every way of reaching
        // position k names data() + k; differences, relations and mixed iterator/const_iterator comparisons agree with indices
        {
          typedef typename V::iterator It; typedef typename V::const_iterator CIt; typedef typename V::difference_type D;
          const D n = static_cast<D> (m.size ());
          It b = v.begin (), e = v.end ();
          CIt cb = cv.begin (), ce = cv.cend ();
          bool iok = (e - b) == n && (ce - cb) == n && (b == cb) && (cb == b) && ! (b != cb) && (e == ce) && It () == It () && CIt () == CIt ();
          const D ks[3] = { static_cast<D> (0), static_cast<D> (n / 2), static_cast<D> (n > 0 ? n - 1 : 0) };
          for (int q = 0; q < 3 && n > 0; ++q)
          {
            const D k = ks[q];
            const auto *want = raw (cv.data ()) + k;
            It a = b; a += k;
            It p = b + k, r = k + b, s = e - static_cast<D> (n - k);
            It t = e; t -= static_cast<D> (n - k);
            It u = b; for (std::ptrdiff_t j = 0; j < k; ++j) { It old = u++; iok = iok && std::addressof (*old) == raw (cv.data ()) + j; }
            It w = e; for (std::ptrdiff_t j = n; j > k; --j) { It old = w--; iok = iok && (old - b) == j; }
            CIt cp = p;                          // iterator -> const_iterator conversion
            iok = iok && std::addressof (*a) == want && std::addressof (*p) == want && std::addressof (*r) == want && std::addressof (*s) == want
                  && std::addressof (*t) == want && std::addressof (*u) == want && std::addressof (*w) == want && std::addressof (*cp) == want
                  && std::addressof (b[k]) == want && std::addressof (cb[k]) == want && raw (p.operator-> ()) == want
                  && (p - b) == k && (b - p) == -k && (cp - cb) == k && (e - p) == n - k
                  && (p < e) && (p <= e) && (e > p) && (e >= p) && ! (e < p) && (b <= p) && (p >= b) && (k == 0 ? ! (b < p) : (b < p))
                  && (cp < ce) && (cp <= p) && (p <= cp) && (cp >= p) && ! (cp < p) && ! (p > cp) && (cp == p) && ! (cp != p);
            It pre = p; ++pre; --pre;
            iok = iok && pre == p;
#if defined (__cpp_impl_three_way_comparison) && __cpp_impl_three_way_comparison >= 201907L
            iok = iok && ((p <=> e) < 0) && ((e <=> p) > 0) && ((p <=> cp) == 0);
#endif
          }
          if (! iok)
            violate ("C01", "model.iterator-algebra", "v%d: iterator arithmetic / comparison / dereference disagrees with data() + index (size %zu)", slot, m.size ());
          COV ().count ("c01.iterator-algebra-checks");
        }
        // at() beyond size must throw out_of_range
        bool threw = false;
        try { (void) cv.at (static_cast<typename V::size_type> (m.size ())); }
        catch (const std::out_of_range&) { threw = true; }
        catch (...) { }
        if (! threw)
          violate ("C01", "model.at-out-of-range", "v%d.at(size()) did not throw std::out_of_range", slot);
        COV ().count ("c01.read-checks");
      });
    }

    void followup (int slot) override
    {
      const char *save = G ().also_prop; const char *save_pref = G ().also_prefix;
      G ().also_prop = "C06"; G ().also_prefix = "";
      Outcome worst = OUT_NORMAL;
      visit_slot (slot, [&] (auto& sl) {
        if (! sl.live) return;
        auto& v = sl.get ();
        { Internal in; for (const auto& e : v) (void) value_of (e); }
        Outcome o;
        if constexpr (copyable)
        {
          Ext<T> x (4242);
          o = guarded ([&] { v.assign (3, x.get ()); });
          if (o != OUT_NORMAL) worst = o;
        }
        o = guarded ([&] { v.emplace_back (4243); });
        if (o != OUT_NORMAL) worst = o;
        o = guarded ([&] { v.emplace (v.begin (), 4244); });
        if (o != OUT_NORMAL) worst = o;
        o = guarded ([&] { v.reserve (v.capacity () + 1); });
        if (o != OUT_NORMAL) worst = o;
        o = guarded ([&] { v.erase (v.begin ()); });
        if (o != OUT_NORMAL) worst = o;
      });
      if (worst != OUT_NORMAL)
        violate ("C06", "followup.threw", "reuse script on v%d after a failed operation threw %s", slot, outcome_name (worst));
      snap_all (post);
      probe_all ("followup");
      quiescent ();
      visit_slot (slot, [&] (auto& sl) { if (sl.live) guarded ([&] { sl.get ().clear (); }); });
      snap_all (post);
      for (int i = 0; i < NSLOT; ++i) if (info[i].live) resync (i);
      quiescent ();
      COV ().count ("c06.followups");
      G ().also_prop = save; G ().also_prefix = save_pref;
    }

    // ---- helpers
    template <typename F>
    void with_ilist (int n, int v0, F f)
    {
      if constexpr (copyable)
      {
        switch (n)
        {
          case 0: { std::initializer_list<T> il { }; f (il); break; }
          case 1: { std::initializer_list<T> il { T (v0) }; f (il); break; }
          case 2: { std::initializer_list<T> il { T (v0), T (v0 + 1) }; f (il); break; }
          case 3: { std::initializer_list<T> il { T (v0), T (v0 + 1), T (v0 + 2) }; f (il); break; }
          default: { std::initializer_list<T> il { T (v0), T (v0 + 1), T (v0 + 2), T (v0 + 3) }; f (il); break; }
        }
      }
    }

    void stream_done (RangeState& st, OpResult& r)
    {
      r.have_stream = true;
      r.stream_len = static_cast<long> (st.len);
      r.stream_derefs = st.total_derefs;
      r.stream_incs = st.total_incs;
    }

    // ValMulti: also offer multi-pass ranges of a type the elements are constructible but not assignable from.
    // (Not for insert(pos, first, last): like libstdc++'s std::vector the header assigns from *first there.)
    template <bool ValMulti = true, typename Call>
    void with_range (const Op& op, OpResult& r, Call call)
    {
      const size_t n = static_cast<size_t> (op.count);
      const std::ptrdiff_t dn = static_cast<std::ptrdiff_t> (n);
      switch (op.itk)
      {
        case IT_STREAM_INT:
        {
          SrcArr<int> a (n, op.val, true); RangeState st (n, "input");
          StreamIt<int> f (a.p, &st, false), l (a.p, &st, true);
          r.out = guarded ([&] { call (f, l); });
          stream_done (st, r);
          break;
        }
        case IT_STREAM_VAL:
          if constexpr (from_val)
          {
            SrcArr<Val> a (n, op.val, true); RangeState st (n, "input");
            StreamIt<Val> f (a.p, &st, false), l (a.p, &st, true);
            r.out = guarded ([&] { call (f, l); });
            stream_done (st, r);
          }
          break;
        case IT_FWD:
          if constexpr (copyable)
          {
            SrcArr<T> a (n, op.val, true); RangeState st (n, "forward");
            MonIt<T, std::forward_iterator_tag> f (a.p, &st, 0), l (a.p, &st, dn);
            r.out = guarded ([&] { call (f, l); });
          }
          break;
        case IT_BIDI:
          if constexpr (copyable)
          {
            SrcArr<T> a (n, op.val, true); RangeState st (n, "bidirectional");
            MonIt<T, std::bidirectional_iterator_tag> f (a.p, &st, 0), l (a.p, &st, dn);
            r.out = guarded ([&] { call (f, l); });
          }
          break;
        case IT_RAND:
          if constexpr (copyable)
          {
            SrcArr<T> a (n, op.val, true); RangeState st (n, "random-access");
            MonIt<T, std::random_access_iterator_tag> f (a.p, &st, 0), l (a.p, &st, dn);
            r.out = guarded ([&] { call (f, l); });
          }
          break;
        case IT_FWD_INT:
        {
          SrcArr<int> a (n, op.val, true); RangeState st (n, "forward");
          MonIt<int, std::forward_iterator_tag> f (a.p, &st, 0), l (a.p, &st, dn);
          r.out = guarded ([&] { call (f, l); });
          break;
        }
        case IT_RAND_INT:
        {
          SrcArr<int> a (n, op.val, true); RangeState st (n, "random-access");
          MonIt<int, std::random_access_iterator_tag> f (a.p, &st, 0), l (a.p, &st, dn);
          r.out = guarded ([&] { call (f, l); });
          break;
        }
        case IT_PTR:
          if constexpr (copyable)
          {
            SrcArr<T> a (n, op.val, false);
            const T *f = a.p, *l = a.p + n;
            r.out = guarded ([&] { call (f, l); });
          }
          break;
        case IT_VEC:
          if constexpr (copyable)
          {
            std::vector<T, MallocAlloc<T> > vec;
            vec.reserve (n);
            for (size_t i = 0; i < n; ++i) vec.emplace_back (op.val + static_cast<int> (i));
            auto f = vec.cbegin (), l = vec.cend ();
            r.out = guarded ([&] { call (f, l); });
          }
          break;
        case IT_MOVE_PTR:
        {
          SrcArr<T> a (n, op.val, false);
          auto f = std::make_move_iterator (a.p), l = std::make_move_iterator (a.p + n);
          r.out = guarded ([&] { call (f, l); });
          break;
        }
        // multi-pass sources the elements are constructible from but NOT assignable from (explicit conversion only)
        case IT_FWD_VAL:
          if constexpr (from_val && ValMulti)
          {
            SrcArr<Val> a (n, op.val, true); RangeState st (n, "forward");
            MonIt<Val, std::forward_iterator_tag> f (a.p, &st, 0), l (a.p, &st, dn);
            r.out = guarded ([&] { call (f, l); });
          }
          break;
        case IT_RAND_VAL:
          if constexpr (from_val && ValMulti)
          {
            SrcArr<Val> a (n, op.val, true); RangeState st (n, "random-access");
            MonIt<Val, std::random_access_iterator_tag> f (a.p, &st, 0), l (a.p, &st, dn);
            r.out = guarded ([&] { call (f, l); });
          }
          break;
        case IT_PTR_VAL:
          if constexpr (from_val && ValMulti)
          {
            SrcArr<Val> a (n, op.val, false);
            const Val *f = a.p, *l = a.p + n;
            r.out = guarded ([&] { call (f, l); });
          }
          break;
        case IT_SVIT:
          if constexpr (copyable)
          {
            gch::small_vector<T, 3, std::allocator<T> > sv;
            for (size_t i = 0; i < n; ++i) sv.emplace_back (op.val + static_cast<int> (i));
            auto f = sv.cbegin (), l = sv.cend ();
            r.out = guarded ([&] { call (f, l); });
          }
          break;
      }
    }

    // ---- dispatch
    void dispatch (const Op& op, OpResult& r) override
    {
      if (op_is_binary (op.kind))
        visit_slot2 (op.t, op.s, [&] (auto& a, auto& b) { this->do_binary (a, b, op, r); });
      else
        visit_slot (op.t, [&] (auto& a) { this->do_unary (a, op, r); });
    }

    template <typename SlotT>
    void do_unary (SlotT& slot, const Op& op, OpResult& r)
    {
      typedef typename std::remove_reference<decltype (slot.get ())>::type V;
      typedef typename V::size_type S;
      V& v = slot.get ();
      auto P = [&] (int pos) { return v.cbegin () + pos; };
      const S cnt = static_cast<S> (op.count);
      const A alloc = make_alloc<A> (op.aid);
      switch (op.kind)
      {
        case OP_PUSH_BACK_COPY:
          if constexpr (copyable)
          {
            Ext<T> x (op.val);
            const T& ref = op.alias >= 0 ? v[static_cast<S> (op.alias)] : x.get ();
            r.out = guarded ([&] { v.push_back (ref); });
          }
          break;
        case OP_PUSH_BACK_MOVE:
        {
          Ext<T> x (op.val);
          r.out = guarded ([&] { v.push_back (std::move (x.get ())); });
          break;
        }
        case OP_EMPLACE_BACK:
          if (op.alias >= 0)
          {
            if constexpr (copyable)
            {
              const T& ref = v[static_cast<S> (op.alias)];
              r.out = guarded ([&] { T& b = v.emplace_back (ref); r.ret_self_ok = (&b == &v.back ()); });
            }
          }
          else
            r.out = guarded ([&] { T& b = v.emplace_back (op.val); r.ret_self_ok = (&b == &v.back ()); });
          break;
        case OP_INSERT_COPY:
          if constexpr (copyable)
          {
            Ext<T> x (op.val);
            const T& ref = op.alias >= 0 ? v[static_cast<S> (op.alias)] : x.get ();
            r.out = guarded ([&] { auto it = v.insert (P (op.pos), ref); r.ret_off = it - v.begin (); });
          }
          break;
        case OP_INSERT_MOVE:
        {
          Ext<T> x (op.val);
          r.out = guarded ([&] { auto it = v.insert (P (op.pos), std::move (x.get ())); r.ret_off = it - v.begin (); });
          break;
        }
        case OP_EMPLACE:
          if (op.alias >= 0)
          {
            if constexpr (copyable)
            {
              const T& ref = v[static_cast<S> (op.alias)];
              r.out = guarded ([&] { auto it = v.emplace (P (op.pos), ref); r.ret_off = it - v.begin (); });
            }
          }
          else
            r.out = guarded ([&] { auto it = v.emplace (P (op.pos), op.val); r.ret_off = it - v.begin (); });
          break;
        case OP_INSERT_N:
          if constexpr (copyable)
          {
            Ext<T> x (op.val);
            const T& ref = op.alias >= 0 ? v[static_cast<S> (op.alias)] : x.get ();
            r.out = guarded ([&] { auto it = v.insert (P (op.pos), cnt, ref); r.ret_off = it - v.begin (); });
          }
          break;
        case OP_INSERT_RANGE:
          with_range<false> (op, r, [&] (auto f, auto l) { auto it = v.insert (P (op.pos), f, l); r.ret_off = it - v.begin (); });
          break;
        case OP_INSERT_ILIST:
          with_ilist (op.count, op.val, [&] (auto il) {
            r.out = guarded ([&] { auto it = v.insert (P (op.pos), il); r.ret_off = it - v.begin (); }); });
          break;
        case OP_ERASE:
          r.out = guarded ([&] { auto it = v.erase (P (op.pos)); r.ret_off = it - v.begin (); });
          break;
        case OP_ERASE_RANGE:
          r.out = guarded ([&] { auto it = v.erase (P (op.pos), P (op.pos + op.count)); r.ret_off = it - v.begin (); });
          break;
        case OP_POP_BACK:
          r.out = guarded ([&] { v.pop_back (); });
          break;
        case OP_CLEAR:
          r.noexcept_declared = noexcept (v.clear ());
          r.out = guarded ([&] { v.clear (); });
          break;
        case OP_RESIZE:
          if constexpr (defctor) r.out = guarded ([&] { v.resize (cnt); });
          break;
        case OP_RESIZE_VAL:
          if constexpr (copyable)
          {
            Ext<T> x (op.val);
            const T& ref = op.alias >= 0 ? v[static_cast<S> (op.alias)] : x.get ();
            r.out = guarded ([&] { v.resize (cnt, ref); });
          }
          break;
        case OP_RESERVE:
          r.out = guarded ([&] { v.reserve (cnt); });
          break;
        case OP_SHRINK:
          r.out = guarded ([&] { v.shrink_to_fit (); });
          break;
        case OP_ASSIGN_N:
          if constexpr (copyable)
          {
            Ext<T> x (op.val);
            r.out = guarded ([&] { v.assign (cnt, x.get ()); });
          }
          break;
        case OP_ASSIGN_RANGE:
          with_range (op, r, [&] (auto f, auto l) { v.assign (f, l); });
          break;
        case OP_ASSIGN_ILIST:
          with_ilist (op.count, op.val, [&] (auto il) { r.out = guarded ([&] { v.assign (il); }); });
          break;
        case OP_OPASSIGN_ILIST:
          with_ilist (op.count, op.val, [&] (auto il) {
            r.out = guarded ([&] { V& rr = (v = il); r.ret_self_ok = (&rr == &v); }); });
          break;
        case OP_APPEND_RANGE:
          with_range (op, r, [&] (auto f, auto l) { V& rr = v.append (f, l); r.ret_self_ok = (&rr == &v); });
          break;
        case OP_APPEND_ILIST:
          with_ilist (op.count, op.val, [&] (auto il) {
            r.out = guarded ([&] { V& rr = v.append (il); r.ret_self_ok = (&rr == &v); }); });
          break;
        case OP_READ:
          r.noexcept_declared = noexcept (v.size ()) && noexcept (v.capacity ()) && noexcept (v.data ()) && noexcept (v.begin ())
                                && noexcept (v.empty ()) && noexcept (v.max_size ()) && noexcept (v.inlined ()) && noexcept (v.get_allocator ());
          r.out = guarded ([&] {
            (void) v.size (); (void) v.capacity (); (void) v.data (); (void) v.begin (); (void) v.end (); (void) v.empty ();
            (void) v.max_size (); (void) v.inlined (); (void) v.inlinable (); (void) v.get_allocator ();
            if (! v.empty ()) { (void) v.front (); (void) v.back (); (void) v[0]; } });
          break;
        case OP_NM_ERASE:
        {
          Ext<T> x (op.val);
          r.out = guarded ([&] { r.ret_count = static_cast<long> (erase (v, x.get ())); });
          break;
        }
        case OP_NM_ERASE_IF:
        {
          const int id = op.val;
          r.out = guarded ([&] { r.ret_count = static_cast<long> (erase_if (v, [id] (const T& e) { return HistBase::pred (id, raw_value (e)); })); });
          break;
        }
        case OP_CTOR_DEFAULT:
          slot.destroy ();
          r.noexcept_declared = noexcept (V ());
          r.out = guarded ([&] { ::new (slot.mem ()) V (); });
          break;
        case OP_CTOR_ALLOC:
          slot.destroy ();
          r.noexcept_declared = noexcept (V (alloc));
          r.out = guarded ([&] { ::new (slot.mem ()) V (alloc); });
          break;
        case OP_CTOR_N:
          if constexpr (defctor)
          {
            slot.destroy ();
            r.out = guarded ([&] { if (op.flag) ::new (slot.mem ()) V (cnt, alloc); else ::new (slot.mem ()) V (cnt); });
          }
          break;
        case OP_CTOR_N_VAL:
          if constexpr (copyable)
          {
            slot.destroy ();
            Ext<T> x (op.val);
            r.out = guarded ([&] { if (op.flag) ::new (slot.mem ()) V (cnt, x.get (), alloc); else ::new (slot.mem ()) V (cnt, x.get ()); });
          }
          break;
        case OP_CTOR_GEN:
        {
          slot.destroy ();
          GenState gs; gs.calls = 0; gs.base = op.val;
          if (op.itk & 1)
          {
            Gen<T> gen (&gs);
            r.out = guarded ([&] { if (op.flag) ::new (slot.mem ()) V (cnt, gen, alloc); else ::new (slot.mem ()) V (cnt, gen); });
          }
          else
          {
            Gen<int> gen (&gs);
            r.out = guarded ([&] { if (op.flag) ::new (slot.mem ()) V (cnt, gen, alloc); else ::new (slot.mem ()) V (cnt, gen); });
          }
          r.gen_calls = gs.calls;
          break;
        }
        case OP_CTOR_RANGE:
          slot.destroy ();
          with_range (op, r, [&] (auto f, auto l) { if (op.flag) ::new (slot.mem ()) V (f, l, alloc); else ::new (slot.mem ()) V (f, l); });
          break;
        case OP_CTOR_ILIST:
          if constexpr (copyable)
          {
            slot.destroy ();
            with_ilist (op.count, op.val, [&] (auto il) {
              r.out = guarded ([&] { if (op.flag) ::new (slot.mem ()) V (il, alloc); else ::new (slot.mem ()) V (il); }); });
          }
          break;
        default: break;
      }
      if (op_is_ctor (op.kind) && r.out != OUT_SKIPPED)
        slot.live = (r.out == OUT_NORMAL);
    }

    static int raw_value (int x) { return x; }
    template <typename E>
    static typename std::enable_if<is_tracked<E>::value, int>::type raw_value (const E& e) { return e.value; }

    template <typename SlotD, typename SlotS>
    void do_binary (SlotD& sd, SlotS& ss, const Op& op, OpResult& r)
    {
      typedef typename std::remove_reference<decltype (sd.get ())>::type VD;
      typedef typename std::remove_reference<decltype (ss.get ())>::type VS;
      constexpr bool same = std::is_same<VD, VS>::value;
      VS& s = ss.get ();
      const A alloc = make_alloc<A> (op.aid);
      switch (op.kind)
      {
        case OP_CTOR_COPY:
          if constexpr (copyable)
          {
            if (static_cast<void *> (&sd) == static_cast<void *> (&ss)) break;
            sd.destroy ();
            r.out = guarded ([&] { if (op.flag) ::new (sd.mem ()) VD (s, alloc); else ::new (sd.mem ()) VD (s); });
            sd.live = (r.out == OUT_NORMAL);
          }
          break;
        case OP_CTOR_MOVE:
          if (static_cast<void *> (&sd) == static_cast<void *> (&ss)) break;
          sd.destroy ();
          r.noexcept_declared = op.flag ? noexcept (VD (std::move (s), alloc)) : noexcept (VD (std::move (s)));
          r.out = guarded ([&] { if (op.flag) ::new (sd.mem ()) VD (std::move (s), alloc); else ::new (sd.mem ()) VD (std::move (s)); });
          sd.live = (r.out == OUT_NORMAL);
          break;
        case OP_ASSIGN_COPY:
          if constexpr (copyable)
          {
            VD& d = sd.get ();
            if constexpr (same)
            {
              if (op.flag) { r.out = guarded ([&] { VD& rr = (d = s); r.ret_self_ok = (&rr == &d); }); break; }
            }
            r.out = guarded ([&] { d.assign (s); });
          }
          break;
        case OP_ASSIGN_MOVE:
        {
          VD& d = sd.get ();   // self move-assignment is allowed: the result must be a valid container
          if constexpr (same)
          {
            if (op.flag)
            {
              r.noexcept_declared = noexcept (d = std::move (s));
              r.out = guarded ([&] { VD& rr = (d = std::move (s)); r.ret_self_ok = (&rr == &d); });
              break;
            }
          }
          r.noexcept_declared = noexcept (d.assign (std::move (s)));
          r.out = guarded ([&] { d.assign (std::move (s)); });
          break;
        }
        case OP_SWAP:
          if constexpr (same)
          {
            VD& d = sd.get ();   // self-swap is allowed (a no-op for std::vector)
            r.noexcept_declared = noexcept (d.swap (s));
            if (op.flag) r.out = guarded ([&] { using std::swap; swap (d, s); });
            else r.out = guarded ([&] { d.swap (s); });
          }
          break;
        case OP_APPEND_COPY:
          if constexpr (copyable)
          {
            if (static_cast<void *> (&sd) == static_cast<void *> (&ss)) break;
            VD& d = sd.get ();
            r.out = guarded ([&] { VD& rr = d.append (s); r.ret_self_ok = (&rr == &d); });
          }
          break;
        case OP_APPEND_MOVE:
        {
          if (static_cast<void *> (&sd) == static_cast<void *> (&ss)) break;
          VD& d = sd.get ();
          r.out = guarded ([&] { VD& rr = d.append (std::move (s)); r.ret_self_ok = (&rr == &d); });
          break;
        }
        case OP_COMPARE:
        {
          const VD& d = sd.get ();
          const VS& cs = s;
          const mvector<int>& a = info[op.t].model;
          const mvector<int>& b = info[op.s].model;
          bool ok = true;
          r.out = guarded ([&] {
            ok = ok && ((d == cs) == (a == b)) && ((d != cs) == (a != b)) && ((d < cs) == (a < b))
                    && ((d <= cs) == (a <= b)) && ((d > cs) == (a > b)) && ((d >= cs) == (a >= b));
          });
          r.cmp_ok = ok;
          break;
        }
        default: break;
      }
    }

    // ---- case drivers --------------------------------------------------------------------------
    // random history
    void run_random_history (uint64_t seed, int length)
    {
      Rng rng (seed);
      run_history (rng, length);
    }

    // history drawn from `rng` (a PRNG, or the bytes of a fuzzer input: stops when they are used up)
    void run_history (Rng& rng, int length)
    {
      reset_pool ();
      op_index = 0;
      hist_allocs_base = LEDGER ().allocs;
      int next_val = 1;
      Snap cur[NSLOT];
      // random provenance for each slot first (not in MODE_SMALL)
      mvector<Op> prefix;
      if (mode != MODE_SMALL)
        for (int t = 0; t < NSLOT; ++t)
          if (rng.chance (2, 3))
          {
            int size = static_cast<int> (rng.below (info[t].N + 5));
            int prov = static_cast<int> (rng.below (PR__COUNT));
            int helper = (t + 1 + static_cast<int> (rng.below (NSLOT - 1))) % NSLOT;
            if (helper < t) continue;   // do not clobber a slot that was already prepared
            recipe (prefix, t, size, prov, next_val, helper);
          }
      mstring sample;
      for (size_t i = 0; i < prefix.size (); ++i) exec (prefix[i]);
      for (int i = 0; i < length && ! rng.exhausted (); ++i)
      {
        snap_all (cur);
        Op op = gen_op (rng, cur, next_val);
        if (sample.size () < 300) { Internal in; sample += op_describe (op); sample += "; "; }
        if (rng.fed () && G ().verbose_trace)
        {
          Internal in;
          std::fprintf (G ().out, "{\"type\":\"op\",\"i\":%d,\"enc\":\"%s\",\"desc\":\"%s\"}\n", i, op_encode (op).c_str (), json_escape (op_describe (op)).c_str ());
          std::fflush (G ().out);
        }
        exec (op);
      }
      { Internal in; COV ().sample (sample); }
      finish_history ();
    }
  };

} // namespace svmon

#endif
