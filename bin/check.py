#!/usr/bin/env python3
"""check.py <Cxx> [--tier quick|thorough]   run the check of one property
   check.py replay <file>                  re-run the case recorded in a replay file
   check.py setup                          offline setup (creates directories, verifies tools)

Exit 0: property held on everything explored.  Exit 1: violation (a line
`VIOLATION property=<id> replay=<path>` is printed).  Exit 2: inconclusive / harness failure."""
import argparse
import json
import os
import re
import sys
import time

sys.path.insert(0, os.path.dirname(os.path.abspath(__file__)))
import svlib
from svlib import Report, build_many, run_many, parse_engine_output, BuildError, log

# ------------------------------------------------------------------------------------------------
# hist-engine configurations


def cfg(T, alloc, NA, NB, pocca=0, pocma=0, pocs=0, ae=0, construct=0, soccc=1, throwdef=0):
    c = {"SV_T": T, "SV_ALLOC": alloc, "SV_NA": NA, "SV_NB": NB, "SV_POCCA": pocca, "SV_POCMA": pocma,
         "SV_POCS": pocs, "SV_AE": ae, "SV_CONSTRUCT": construct, "SV_SOCCC": soccc}
    if throwdef:
        c["SV_THROWDEF"] = 1
    return c


def cfg_name(c):
    a = "std" if c["SV_ALLOC"] == 0 else "%s%d%d%d%s%s" % ("F" if c["SV_ALLOC"] == 2 else "L", c["SV_POCCA"], c["SV_POCMA"], c["SV_POCS"],
                                                             "ae" if c["SV_AE"] else "", "c" if c["SV_CONSTRUCT"] else "")
    if c.get("SV_THROWDEF"):
        a += "td"
    if c.get("SV_SIZET"):
        a += "-" + c["SV_SIZET"].replace("std::uint", "u").replace("_t", "")
    return "%s/%s/N%d,%d" % (c["SV_T"], a, c["SV_NA"], c["SV_NB"])


def cfg_class(c):
    return "%s/%s" % (c["SV_T"], "std" if c["SV_ALLOC"] == 0 else "fancy" if c["SV_ALLOC"] == 2 else "ledger")


Q = {
    "int-std":      cfg("int", 0, 2, 5),
    "tnx-l000":     cfg("TNx", 1, 2, 5),
    "tthrow-l000":  cfg("TThrow", 1, 0, 3),
    "tthrow-std":   cfg("TThrow", 0, 4, 4),
    "tmo-l111":     cfg("TMoveOnly", 1, 1, 8, 1, 1, 1),
    "tco-l010":     cfg("TCopyOnly", 1, 3, 0, 0, 1, 0),
    "tnx-l101ae":   cfg("TNx", 1, 3, 0, 1, 0, 1, 1),
    "tmot-l001":    cfg("TMoveOnlyThrow", 1, 2, 5, 0, 0, 1),
    "tsw-l110":     cfg("TSwapThrow", 1, 2, 2, 1, 1, 0),
    "tnx-l000c":    cfg("TNx", 1, 1, 4, 0, 0, 0, 0, 1),
    "tnx-l101":     cfg("TNx", 1, 2, 5, 1, 0, 1),
    "tthrow-l011":  cfg("TThrow", 1, 5, 2, 0, 1, 1),
    "int-l111":     cfg("int", 1, 0, 4, 1, 1, 1),
    "tas-l000":     cfg("TAssignThrow", 1, 2, 5),
    # SV_ALLOC 2: the same ledger allocator handing out fancy pointers (FancyPtr<T>, two words, self-checking)
    "tnx-f000":     cfg("TNx", 2, 2, 5),
    "int-f101":     cfg("int", 2, 2, 5, 1, 0, 1),
    "tthrow-f011":  cfg("TThrow", 2, 0, 3, 0, 1, 1),
    "tmo-f111":     cfg("TMoveOnly", 2, 1, 8, 1, 1, 1),
    # allocator size_type narrower than int: every size computation in the header goes through integer promotion and back
    # (uint16_t: max_size() 65535/sizeof(T) is far above anything a history reaches, so the model needs no limit awareness)
    # over-aligned (alignas 64), 64-byte element: alignment of the inline buffer and of allocator blocks (probe.data-misaligned, UBSan alignment)
    "tal-l000":     cfg("TAlign", 1, 2, 5),
    "tal-std":      cfg("TAlign", 0, 3, 1),
    "tnx-l000-u16": dict(cfg("TNx", 1, 2, 5), SV_SIZET="std::uint16_t"),
    "int-l101-u16": dict(cfg("int", 1, 0, 4, 1, 0, 1), SV_SIZET="std::uint16_t"),
    "tthrow-f011-u16": dict(cfg("TThrow", 2, 3, 1, 0, 1, 1), SV_SIZET="std::uint16_t"),
}
QTD = {
    "tnx-td":       cfg("TNx", 1, 2, 5, throwdef=1),
    "tthrow-td":    cfg("TThrow", 1, 0, 3, 0, 1, 0, throwdef=1),
}


def thorough_matrix():
    """A covering set for the thorough tier: every flavour, std + all 8 propagation combos x always-equal,
    N pairs (0,3) (2,5) (1,8) (4,4) (5,2) (3,0)."""
    flavours = ["int", "TNx", "TThrow", "TMoveOnly", "TMoveOnlyThrow", "TCopyOnly", "TSwapThrow", "TAssignThrow"]
    npairs = [(0, 3), (2, 5), (1, 8), (4, 4), (5, 2), (3, 0)]
    out = {}
    i = 0
    for fi, f in enumerate(flavours):
        out["%s-std" % f] = cfg(f, 0, *npairs[fi % len(npairs)])
    for k in ("tnx-f000", "int-f101", "tthrow-f011", "tmo-f111", "tnx-l000-u16", "int-l101-u16", "tthrow-f011-u16", "tal-l000", "tal-std"):
        out[k] = Q[k]
    for combo in range(8):
        for ae in (0, 1):
            pocca, pocma, pocs = (combo >> 2) & 1, (combo >> 1) & 1, combo & 1
            for k in range(2 if not ae else 1):
                f = flavours[1 + (i % (len(flavours) - 1))]
                n = npairs[(i * 5 + combo) % len(npairs)]
                out["%s-l%d%d%d%s-%d" % (f, pocca, pocma, pocs, "ae" if ae else "", k)] = cfg(f, 1, n[0], n[1], pocca, pocma, pocs, ae, construct=int(i % 5 == 0))
                i += 1
    return out


def compile_cmd_of(err):
    """The compile command recorded in a BuildError diagnostic (used as the replay of a compile rejection)."""
    m = re.match(r"CMD: (.*)", getattr(err, "diag", "") or "")
    return m.group(1).split() if m else ["false"]


def hist_run(c, flavour, args, name=None, env=None):
    return {"cfg": c, "flavour": flavour, "args": [str(a) for a in args], "name": name or cfg_name(c), "env": env}


def run_hist_plan(report, prop, plan, accept=None):
    """plan: list of hist_run dicts.  Builds binaries (shared cache) and runs them in parallel."""
    specs, index = [], {}
    for r in plan:
        k = (json.dumps(r["cfg"], sort_keys=True), r["flavour"])
        if k not in index:
            index[k] = len(specs)
            specs.append({"src": "hist.cpp", "flavour": r["flavour"], "defines": r["cfg"], "name": "hist"})
    t0 = time.time()
    bins = build_many(specs)
    log("[%s] built %d hist binaries in %.1fs" % (prop, len(specs), time.time() - t0))
    cmds, metas = [], []
    for r in plan:
        b = bins[index[(json.dumps(r["cfg"], sort_keys=True), r["flavour"])]]
        if isinstance(b, BuildError):
            report.add_inconclusive("harness build failed for %s (%s): %s" % (r["name"], r["flavour"], b.diag[-1500:]))
            continue
        cmds.append(((["env"] + ["%s=%s" % kv for kv in sorted(r["env"].items())]) if r.get("env") else []) + [b] + r["args"])
        mode = r["args"][r["args"].index("--mode") + 1] if "--mode" in r["args"] else "random"
        metas.append({"engine": "hist", "src": "hist.cpp", "flavour": r["flavour"], "defines": r["cfg"], "args": r["args"],
                      "config": r["name"] + "@" + r["flavour"], "config_class": cfg_class(r["cfg"]), "mode": mode})
    t0 = time.time()
    results = run_many(cmds, timeout=3000)
    log("[%s] ran %d engine processes in %.1fs" % (prop, len(cmds), time.time() - t0))
    for res, meta in zip(results, metas):
        parse_engine_output(res, report, prop, meta, accept_props=accept or {prop})


def fuzz_stage(report, prop, cfgs, runs, seed, monitors=None, fault=0, fmask="all", focus="general", also=None, also_prefix="", procs=2, accept=None):
    """Coverage-guided exploration: libFuzzer mutates byte strings that feed the history generator (two bytes per draw)
    and keeps the inputs that reach new edges of the header or of the monitors.  One process per (config, k); every
    process has its own scratch corpus (removed afterwards).  A violation makes the driver abort, libFuzzer stores the
    input, and the stored input becomes the replay."""
    import hashlib, shutil, tempfile
    names = list(cfgs)
    if "coverage-guided" not in report.rule:
        report.rule += ("; the thorough tier adds a coverage-guided stage: libFuzzer mutates byte strings that feed the same history generator, keeps inputs reaching new "
                        "edges of the header/monitors (%d executions per process, %d processes%s)" % (runs, procs * len(names), ", fault enumeration on the last op of each history" if fault else ""))
    specs = [{"src": "hist.cpp", "flavour": "clang-fuzz", "defines": dict(cfgs[k], SVMON_FUZZ=None), "name": "histfuzz"} for k in names]
    t0 = time.time()
    bins = build_many(specs)
    log("[%s] built %d fuzz drivers in %.1fs" % (prop, len(specs), time.time() - t0))
    os.makedirs(svlib.CACHE, exist_ok=True)
    work = tempfile.mkdtemp(prefix="fuzz.", dir=svlib.CACHE)
    cmds, metas = [], []
    try:
        for k, b in zip(names, bins):
            if isinstance(b, BuildError):
                report.add_inconclusive("fuzz driver build failed for %s: %s" % (k, b.diag[-1500:]))
                continue
            for j in range(procs):
                d = os.path.join(work, "%s.%d" % (k, j))
                os.makedirs(os.path.join(d, "corpus"))
                env = {"SVMON_FUZZ_MONITORS": monitors or prop, "SVMON_FUZZ_FAULT": str(fault), "SVMON_FUZZ_FMASK": fmask, "SVMON_FUZZ_FOCUS": focus}
                if also:
                    env["SVMON_FUZZ_ALSO"] = also
                    env["SVMON_FUZZ_ALSO_PREFIX"] = also_prefix
                fz = [b, "-runs=%d" % runs, "-max_len=256", "-len_control=20", "-seed=%d" % (seed * 1000 + 17 * j + 1), "-detect_leaks=0", "-timeout=300", "-rss_limit_mb=4096",
                      "-artifact_prefix=" + d + "/", "-print_final_stats=1", os.path.join(d, "corpus")]
                cmds.append(["env"] + ["%s=%s" % kv for kv in sorted(env.items())] + fz)
                metas.append({"engine": "fuzz", "src": "hist.cpp", "flavour": "clang-fuzz", "defines": dict(cfgs[k], SVMON_FUZZ=None), "env": env,
                              "config": cfg_name(cfgs[k]) + "@fuzz", "config_class": cfg_class(cfgs[k]), "mode": "fuzz", "dir": d})
        t0 = time.time()
        results = run_many(cmds, timeout=3000)
        log("[%s] ran %d fuzz processes in %.1fs" % (prop, len(cmds), time.time() - t0))
        cnt = report.coverage["counters"]
        for res, meta in zip(results, metas):
            d = meta.pop("dir")
            arts = sorted(f for f in os.listdir(d) if f.split("-")[0] in ("crash", "timeout", "oom", "leak", "slow"))
            rb = dict(meta)
            if arts:
                os.makedirs(svlib.REPLAYS, exist_ok=True)
                data = open(os.path.join(d, arts[0]), "rb").read()
                dst = os.path.join(svlib.REPLAYS, "fuzz-%s-%s.bin" % (prop, hashlib.sha256(data).hexdigest()[:16]))
                with open(dst, "wb") as f:
                    f.write(data)
                rb["artifact"] = dst
            parse_engine_output(dict(res, rc=0), report, prop, dict(rb, expect_done=(res["rc"] == 0)), accept_props=accept or {prop})
            for line in res["err"].splitlines():
                m = re.match(r"stat::(number_of_executed_units|new_units_added):\s+(\d+)", line)
                if m:
                    cnt["fuzz-" + m.group(1)] = cnt.get("fuzz-" + m.group(1), 0) + int(m.group(2))
            m = re.findall(r"cov: (\d+) ft: (\d+)", res["err"])
            if m:
                cnt["fuzz-max-edges"] = max(cnt.get("fuzz-max-edges", 0), int(m[-1][0]))
                cnt["fuzz-max-features"] = max(cnt.get("fuzz-max-features", 0), int(m[-1][1]))
            if res["rc"] != 0 and not res["timeout"] and '"type":"violation"' not in res["out"]:
                # the process died without a monitor record: sanitizer report, std::terminate, hang or out-of-memory inside the library
                kind = ("asan" if "ERROR: AddressSanitizer" in res["err"] else "ubsan" if "runtime error:" in res["err"] else
                        "timeout" if "ERROR: libFuzzer: timeout" in res["err"] else "oom" if "out-of-memory" in res["err"] else
                        "terminate" if "terminate called" in res["err"] or "deadly signal" in res["err"] else "exit%s" % res["rc"])
                report.add_violation("fuzz|%s|death.%s|%s" % (prop, kind, meta["config_class"]),
                                     "fuzz driver died (%s) [%s]%s" % (kind, meta["config"], svlib.san_summary(res["err"][-200000:])), rb)
        if cmds and cnt.get("fuzz-number_of_executed_units", 0) < runs * len(cmds) // 2 and not report.violations:
            report.add_inconclusive("coverage-guided stage executed %d inputs, expected %d" % (cnt.get("fuzz-number_of_executed_units", 0), runs * len(cmds)))
    finally:
        shutil.rmtree(work, ignore_errors=True)


def shards(c, flavour, base_args, n, name=None):
    return [hist_run(c, flavour, list(base_args) + ["--shard", i, "--nshards", n], name) for i in range(n)]


# ------------------------------------------------------------------------------------------------
# Property checks built on the hist engine

def floor(report, counter, minimum, what):
    got = report.coverage["counters"].get(counter, 0)
    if got < minimum:
        report.add_inconclusive("monitor floor not met: %s observed %d < %d (%s)" % (counter, got, minimum, what))


def check_C01(tier, seed):
    rp = Report("C01", tier, seed, "exploration")
    rp.rule = ("state-directed random call histories (pool of 3 containers, two inline capacities) plus a canonical-state sweep "
               "(size x provenance x op x position x count) executed on the real small_vector and on a std::vector<int> model; "
               "a tuple = (op, N, representation/size-class/slack before -> representation after, outcome, position class, "
               "count-vs-tail, count-vs-free, aliasing, iterator kind); non-trivial = the op executed (skipped/invalid cases are not counted)")
    rp.assumptions = ["element types sampled: int, Tracked flavours (nothrow move, throwing move, move-only, copy-only, throwing swap)",
                      "moved-from sources are re-synchronised (their contents are unspecified)", "capacity is not modelled"]
    mon = ["--monitors", "C01"]
    plan = []
    if tier == "quick":
        for k in ("int-std", "tnx-l000", "tthrow-l000", "tco-l010", "tmo-l111", "tnx-f000", "tnx-l000-u16"):
            plan += shards(Q[k], "asan-dbg", ["--mode", "sweep", "--level", 0] + mon, 2)
        for k in ("int-std", "tnx-l000", "tthrow-l000", "tthrow-std", "tmo-l111", "tco-l010", "tnx-l101ae", "tmot-l001", "int-l111", "tnx-f000", "int-f101", "tnx-l000-u16", "int-l101-u16", "tal-l000", "tal-std"):
            plan.append(hist_run(Q[k], "asan-dbg", ["--mode", "random", "--cases", 600, "--len", 60, "--seed", seed] + mon))
        for k in ("int-std", "tnx-l000"):
            plan.append(hist_run(Q[k], "asan-rel", ["--mode", "random", "--cases", 1500, "--len", 60, "--seed", seed + 1] + mon))
    else:
        M = thorough_matrix()
        for k, c in M.items():
            plan += shards(c, "asan-dbg-o1", ["--mode", "sweep", "--level", 1] + mon, 2, k)
            plan.append(hist_run(c, "asan-dbg-o1", ["--mode", "random", "--cases", 6000, "--len", 60, "--seed", seed] + mon, k))
        for k in ("int-std", "tnx-l000", "tthrow-l000", "tmo-l111"):
            plan.append(hist_run(Q[k], "asan-rel", ["--mode", "random", "--cases", 20000, "--len", 60, "--seed", seed + 1] + mon))
            plan.append(hist_run(Q[k], "clang-asan", ["--mode", "random", "--cases", 8000, "--len", 60, "--seed", seed + 2] + mon))
    run_hist_plan(rp, "C01", plan, accept={"C01", "C16"})
    if tier != "quick":
        fuzz_stage(rp, "C01", {k: Q[k] for k in ("int-std", "tnx-l000", "tthrow-l011", "tmo-l111", "tco-l010", "tsw-l110", "tnx-l101ae", "tas-l000")}, 150000, seed)
    if tier != "quick":
        # valgrind memcheck on the uninstrumented build: use of uninitialised element values, which ASan cannot see
        vspecs = [{"src": "hist.cpp", "flavour": "plain-dbg", "defines": Q[k], "name": "hist"} for k in ("int-l111", "tnx-l000")]
        vbins = build_many(vspecs)
        vcmds = [["env", "SVMON_NO_POISON=1", "valgrind", "-q", "--error-exitcode=99", "--leak-check=no", "--track-origins=no", b, "--mode", "random", "--cases", "150", "--len", "50", "--seed", str(seed + 9), "--nofork", "--monitors", "C01"]
                 for b in vbins if not isinstance(b, BuildError)]
        for res in run_many(vcmds, timeout=3000):
            rp.coverage["counters"]["valgrind-runs"] = rp.coverage["counters"].get("valgrind-runs", 0) + 1
            if res["rc"] == 99:
                rp.add_violation("hist|C01|valgrind.memcheck", "valgrind memcheck reported an error: %s" % res["err"][-1500:], {"engine": "hist", "replay_cmd": res["cmd"]})
            elif res["rc"] != 0:
                rp.add_inconclusive("valgrind run failed with %s: %s" % (res["rc"], res["err"][-300:]))
            else:
                parse_engine_output(res, rp, "C01", {"engine": "hist", "config": "valgrind", "config_class": "valgrind", "mode": "random", "replay_cmd": res["cmd"], "expect_done": False}, accept_props={"C01"})
    floor(rp, "c01.read-checks", 1000, "read-path checks")
    return rp.finish()


def check_C02(tier, seed):
    rp = Report("C02", tier, seed, "exploration")
    rp.rule = ("storage-invariant probe (size<=capacity<=max, capacity>=N, inlined<=>capacity==N<=>data inside object, heap data is a live ledger "
               "block of capacity() elements owned by get_allocator(), contiguity, iterator agreement, inlinable) after every op of random histories, "
               "of the canonical-state sweep, after every injected throw (single-fault enumeration) and on moved-from sources; tuple as for C01 plus fault tuples")
    rp.assumptions = ["run-time only (a constant-evaluated container legitimately reports inlined()==false)"]
    mon = ["--monitors", "C02"]
    plan = []
    if tier == "quick":
        for k in ("tnx-l000", "tthrow-l000", "tmo-l111", "tnx-l101", "int-std", "tnx-f000", "int-l101-u16", "tal-l000", "tal-std"):
            plan += shards(Q[k], "asan-dbg", ["--mode", "sweep", "--level", 0] + mon, 2)
        for k in Q:
            plan.append(hist_run(Q[k], "asan-dbg", ["--mode", "random", "--focus", "alloc", "--cases", 500, "--len", 60, "--seed", seed] + mon))
        for k in ("tthrow-l000", "tmot-l001", "tco-l010", "tthrow-f011", "tthrow-f011-u16"):
            plan += shards(Q[k], "asan-dbg", ["--mode", "fault", "--level", 0] + mon, 2)
    else:
        M = thorough_matrix()
        for k, c in M.items():
            plan += shards(c, "asan-dbg-o1", ["--mode", "sweep", "--level", 1] + mon, 2, k)
            plan.append(hist_run(c, "asan-dbg-o1", ["--mode", "random", "--focus", "alloc", "--cases", 5000, "--len", 60, "--seed", seed] + mon, k))
            plan.append(hist_run(c, "asan-dbg-o1", ["--mode", "rfault", "--cases", 400, "--len", 12, "--seed", seed] + mon, k))
        for k in ("tthrow-l000", "tmot-l001", "tco-l010", "tthrow-l011", "tsw-l110", "tthrow-f011", "tmo-f111"):
            plan += shards(Q[k], "asan-dbg-o1", ["--mode", "fault", "--level", 1] + mon, 4)
    run_hist_plan(rp, "C02", plan, accept={"C02", "C06"} if False else {"C02"})
    if tier != "quick":
        fuzz_stage(rp, "C02", {k: Q[k] for k in ("int-std", "tnx-l000", "tthrow-l011", "tmo-l111", "tco-l010", "tsw-l110", "tnx-l101ae", "tas-l000")}, 60000, seed, fault=2)
    return rp.finish()


def check_C03(tier, seed):
    rp = Report("C03", tier, seed, "exploration")
    rp.rule = ("element registry keyed by address (online: construct-over-live, destroy/assign/read of dead storage; quiescent after every op: "
               "live set == union of [data,data+size); end of history: nothing alive, constructions==destructions) over random multi-container "
               "histories, the sweep and single-fault enumeration; for int/trivial elements ASan (use-after-free/scope) is the oracle")
    rp.assumptions = ["reading a moved-from but live element is legal and not flagged"]
    mon = ["--monitors", "C03"]
    tracked = [k for k in Q if Q[k]["SV_T"] != "int"]
    plan = []
    if tier == "quick":
        for k in ("tnx-l000", "tthrow-l000", "tmo-l111", "tco-l010", "tnx-l000c", "tnx-f000", "tal-std"):
            plan += shards(Q[k], "asan-dbg", ["--mode", "sweep", "--level", 0] + mon, 2)
        for k in tracked:
            plan.append(hist_run(Q[k], "asan-dbg", ["--mode", "random", "--cases", 500, "--len", 60, "--seed", seed] + mon))
        for k in ("tthrow-l000", "tmot-l001", "tco-l010", "tsw-l110", "tthrow-f011"):
            plan += shards(Q[k], "asan-dbg", ["--mode", "fault", "--level", 0] + mon, 2)
        plan.append(hist_run(Q["int-std"], "asan-dbg", ["--mode", "random", "--cases", 800, "--len", 60, "--seed", seed] + mon))
    else:
        M = thorough_matrix()
        for k, c in M.items():
            plan += shards(c, "asan-dbg-o1", ["--mode", "sweep", "--level", 1] + mon, 2, k)
            plan.append(hist_run(c, "asan-dbg-o1", ["--mode", "random", "--cases", 5000, "--len", 60, "--seed", seed] + mon, k))
            plan.append(hist_run(c, "asan-dbg-o1", ["--mode", "rfault", "--cases", 400, "--len", 12, "--seed", seed] + mon, k))
        for k in ("tthrow-l000", "tmot-l001", "tco-l010", "tthrow-l011", "tsw-l110", "tnx-l000c", "tthrow-f011", "tmo-f111"):
            plan += shards(Q[k], "asan-dbg-o1", ["--mode", "fault", "--level", 1] + mon, 4)
    run_hist_plan(rp, "C03", plan)
    if tier != "quick":
        fuzz_stage(rp, "C03", {k: Q[k] for k in ("tnx-l000", "tthrow-l011", "tmo-l111", "tco-l010", "tsw-l110", "tnx-l101ae", "tas-l000", "tmot-l001")}, 60000, seed, fault=2)
    return rp.finish()


def check_C04(tier, seed):
    rp = Report("C04", tier, seed, "exploration")
    rp.rule = ("allocation ledger (pairing, same n, equal allocator, live blocks == buffers of non-inlined containers after every op, nothing left at the end), "
               "the no-allocate rule for ops whose result fits the prior capacity (with the four stated exemptions), and 'never exceeds N' histories that must "
               "not touch the allocator at all; over random ownership-heavy histories, the sweep, and single-fault enumeration; std::allocator is observed through an operator new shim")
    mon = ["--monitors", "C04"]
    plan = []
    if tier == "quick":
        for k in ("tnx-l000", "tthrow-l000", "tmo-l111", "tnx-l101", "int-std", "tthrow-l011", "tnx-f000", "tal-l000"):
            plan += shards(Q[k], "asan-dbg", ["--mode", "sweep", "--level", 0] + mon, 2)
        for k in Q:
            plan.append(hist_run(Q[k], "asan-dbg", ["--mode", "random", "--focus", "alloc", "--cases", 400, "--len", 60, "--seed", seed] + mon))
            plan.append(hist_run(Q[k], "asan-dbg", ["--mode", "random", "--focus", "small", "--cases", 300, "--len", 40, "--seed", seed + 7] + mon))
        for k in ("tthrow-l000", "tmot-l001", "tco-l010", "tthrow-std", "tthrow-f011"):
            plan += shards(Q[k], "asan-dbg", ["--mode", "fault", "--level", 0] + mon, 2)
    else:
        M = thorough_matrix()
        for k, c in M.items():
            plan += shards(c, "asan-dbg-o1", ["--mode", "sweep", "--level", 1] + mon, 2, k)
            plan.append(hist_run(c, "asan-dbg-o1", ["--mode", "random", "--focus", "alloc", "--cases", 5000, "--len", 60, "--seed", seed] + mon, k))
            plan.append(hist_run(c, "asan-dbg-o1", ["--mode", "random", "--focus", "small", "--cases", 3000, "--len", 40, "--seed", seed + 7] + mon, k))
            plan.append(hist_run(c, "asan-dbg-o1", ["--mode", "rfault", "--cases", 400, "--len", 12, "--seed", seed] + mon, k))
        for k in ("tthrow-l000", "tmot-l001", "tco-l010", "tthrow-l011", "tthrow-std", "tthrow-f011", "tmo-f111"):
            plan += shards(Q[k], "asan-dbg-o1", ["--mode", "fault", "--level", 1] + mon, 4)
    run_hist_plan(rp, "C04", plan)
    if tier != "quick":
        fuzz_stage(rp, "C04", {k: Q[k] for k in ("tnx-l000", "tthrow-l011", "tmo-l111", "tco-l010", "tsw-l110", "tnx-l101ae", "tnx-l101", "tthrow-std")}, 60000, seed, fault=2, focus="alloc")
    floor(rp, "c04.noalloc-rule-checked", 1000, "ops checked against the no-allocate rule")
    return rp.finish()


def check_C05(tier, seed):
    rp = Report("C05", tier, seed, "fault_enumeration")
    rp.rule = ("for every (state, strong-guarantee op, argument) case of the canonical-state enumeration and for the last op of random histories: ALL single throw "
               "points k=1..T among element constructors and allocate (enumeration stops at the first run that completes without firing); after each throw the "
               "snapshot (size, values, moved-from flags, and for std::vector-specified ops capacity/data/element identity) must equal the snapshot before; "
               "tuple = (op, state class, tick kind that threw, first/later)")
    rp.assumptions = ["GCH_NO_STRONG_EXCEPTION_GUARANTEES is never defined", "iterator/assignment faults are masked (C06 covers them)",
                      "move-constructor faults of move-only types are masked (excluded by the statement)"]
    mon = ["--monitors", "C05", "--fault-mask", "c05", "--select", "strong"]
    plan = []
    if tier == "quick":
        for k in ("tnx-l000", "tthrow-l000", "tco-l010", "tmo-l111", "tmot-l001", "tthrow-std", "tthrow-f011"):
            plan += shards(Q[k], "asan-dbg", ["--mode", "fault", "--level", 0] + mon, 2)
        for k in ("tthrow-l000", "tnx-l000", "tthrow-l011"):
            plan.append(hist_run(Q[k], "asan-dbg", ["--mode", "rfault", "--cases", 300, "--len", 10, "--seed", seed] + mon))
    else:
        for k in ("tnx-l000", "tthrow-l000", "tco-l010", "tmo-l111", "tmot-l001", "tthrow-std", "tsw-l110", "tthrow-l011", "tnx-l000c", "tnx-l101ae", "tthrow-f011", "tmo-f111"):
            plan += shards(Q[k], "asan-dbg-o1", ["--mode", "fault", "--level", 2] + mon, 4)
            plan.append(hist_run(Q[k], "asan-dbg-o1", ["--mode", "rfault", "--cases", 4000, "--len", 12, "--seed", seed] + mon))
        for k in ("tthrow-l000", "tco-l010"):
            plan += shards(Q[k], "clang-asan", ["--mode", "fault", "--level", 1] + mon, 4)
    run_hist_plan(rp, "C05", plan)
    if tier != "quick":
        fuzz_stage(rp, "C05", {k: Q[k] for k in ("tnx-l000", "tthrow-l000", "tco-l010", "tmo-l111", "tmot-l001", "tthrow-std", "tthrow-l011", "tnx-l000c")}, 120000, seed, fault=1, fmask="c05")
    floor(rp, "faults-fired", 500, "injected faults that reached the caller")
    floor(rp, "c05.strong-cases", 300, "strong-guarantee snapshots compared")
    rp.exhaustive = True
    rp.extra["exhaustive_note"] = "all single throw points per enumerated case; the case set itself is a bounded small-scope enumeration"
    return rp.finish()


def check_C06(tier, seed):
    rp = Report("C06", tier, seed, "fault_enumeration")
    rp.rule = ("for every op kind of the interpreter (constructors included) from the canonical states: all single throw points among element ctor/assign/swap, "
               "allocate, iterator */++ and generator; for roll-back paths also all pairs (second fault while the first is in flight); after each throw: storage probe "
               "on every participant, registry live set == containers, ledger balanced, then a reuse script (read, assign, emplace_back, emplace, reserve, erase, clear, destroy); "
               "process death (terminate/abort/sanitizer) is a violation; tuple = (op, state class, tick kind(s))")
    mon = ["--monitors", "C06"]
    plan = []
    if tier == "quick":
        for k in ("tthrow-l000", "tco-l010", "tmot-l001", "tsw-l110", "tnx-l000", "tas-l000", "tthrow-f011"):
            plan += shards(Q[k], "asan-dbg", ["--mode", "fault", "--level", 0] + mon, 3)
        plan += shards(Q["tthrow-l011"], "asan-dbg", ["--mode", "fault", "--level", 0, "--pairs", 1, "--select", "alias"] + mon, 2)
        for k in ("tthrow-l000", "tthrow-std", "tnx-l000"):
            plan.append(hist_run(Q[k], "asan-dbg", ["--mode", "rfault", "--cases", 300, "--len", 10, "--seed", seed, "--pairs", 1] + mon))
    else:
        for k in ("tnx-l000", "tthrow-l000", "tco-l010", "tmo-l111", "tmot-l001", "tthrow-std", "tsw-l110", "tthrow-l011", "tnx-l000c", "tnx-l101ae", "tnx-l101", "tthrow-f011", "tmo-f111"):
            plan += shards(Q[k], "asan-dbg-o1", ["--mode", "fault", "--level", 1, "--pairs", 1] + mon, 6)
            plan.append(hist_run(Q[k], "asan-dbg-o1", ["--mode", "rfault", "--cases", 3000, "--len", 12, "--seed", seed, "--pairs", 1] + mon))
    run_hist_plan(rp, "C06", plan)
    if tier != "quick":
        fuzz_stage(rp, "C06", {k: Q[k] for k in ("tnx-l000", "tthrow-l000", "tco-l010", "tmo-l111", "tmot-l001", "tsw-l110", "tthrow-l011", "tas-l000")}, 100000, seed, fault=1)
    floor(rp, "faults-fired", 1000, "injected faults")
    floor(rp, "c06.followups", 500, "reuse scripts after a throw")
    rp.exhaustive = True
    rp.extra["exhaustive_note"] = "all single throw points (and pairs where enabled) per enumerated case"
    return rp.finish()


def check_C07(tier, seed):
    rp = Report("C07", tier, seed, "exploration")
    rp.rule = ("allocator ids tracked through every copy/move/allocator-extended construction, copy/move assignment and swap; expected id computed from the "
               "propagation traits (SOCCC returns a marked copy); every heap buffer's allocating id must equal get_allocator(); exhaustive operand-state grid "
               "(sweep, binary ops) + ownership-heavy random histories over several propagation-trait combinations; tuple = (op, form, ids equal/unequal, operand state classes)")
    rp.assumptions = ["for is_always_equal allocators 'equals' is the allocator's own operator== (always true): ids are carried but the id check is vacuous there"]
    mon = ["--monitors", "C07"]
    ks = ("tnx-l000", "tmo-l111", "tco-l010", "tsw-l110", "tmot-l001", "tnx-l101", "tthrow-l011", "int-f101", "tmo-f111") if tier == "quick" else None
    plan = []
    if tier == "quick":
        for k in ks:
            plan += shards(Q[k], "asan-dbg", ["--mode", "sweep", "--level", 0, "--select", "binary"] + mon, 2)
            plan.append(hist_run(Q[k], "asan-dbg", ["--mode", "random", "--focus", "alloc", "--cases", 500, "--len", 60, "--seed", seed] + mon))
    else:
        M = thorough_matrix()
        for k, c in M.items():
            if c["SV_ALLOC"] == 0:
                continue
            plan += shards(c, "asan-dbg-o1", ["--mode", "sweep", "--level", 1, "--select", "binary"] + mon, 2, k)
            plan.append(hist_run(c, "asan-dbg-o1", ["--mode", "random", "--focus", "alloc", "--cases", 6000, "--len", 60, "--seed", seed] + mon, k))
    run_hist_plan(rp, "C07", plan)
    if tier != "quick":
        fuzz_stage(rp, "C07", {k: Q[k] for k in ("tnx-l000", "tmo-l111", "tco-l010", "tsw-l110", "tmot-l001", "tnx-l101", "tthrow-l011", "tnx-l101ae")}, 100000, seed, focus="alloc")
    return rp.finish()


def check_C09(tier, seed):
    rp = Report("C09", tier, seed, "exploration")
    rp.rule = ("for move construction (plain / allocator-extended), move assignment (same and cross N) and swap: steal_permitted is computed from the pre-state "
               "(source on heap, capacity > destination N, allocators interchangeable); when permitted the destination's data() must be the source's old data(), element "
               "addresses/serials preserved, zero element events on the transferred buffer, zero allocate, source empty and inlined; exhaustive grid incl. source capacity "
               "<, ==, > destination N, plus random histories; tuple = (op, form, N relation, steal/elementwise, source state class, capacity-vs-N)")
    mon = ["--monitors", "C09"]
    plan = []
    if tier == "quick":
        for k in ("tnx-l000", "tmo-l111", "tco-l010", "tthrow-std", "tnx-l101ae", "tthrow-l011", "int-std", "tmot-l001", "int-l111", "tnx-f000", "int-f101"):
            plan += shards(Q[k], "asan-dbg", ["--mode", "sweep", "--level", 0, "--select", "binary"] + mon, 2)
            plan.append(hist_run(Q[k], "asan-dbg", ["--mode", "random", "--focus", "alloc", "--cases", 400, "--len", 60, "--seed", seed] + mon))
    else:
        M = thorough_matrix()
        for k, c in M.items():
            plan += shards(c, "asan-dbg-o1", ["--mode", "sweep", "--level", 1, "--select", "binary"] + mon, 2, k)
            plan.append(hist_run(c, "asan-dbg-o1", ["--mode", "random", "--focus", "alloc", "--cases", 6000, "--len", 60, "--seed", seed] + mon, k))
    run_hist_plan(rp, "C09", plan)
    if tier != "quick":
        fuzz_stage(rp, "C09", {k: Q[k] for k in ("tnx-l000", "tmo-l111", "tco-l010", "tthrow-std", "tnx-l101ae", "tthrow-l011", "int-std", "int-l111")}, 100000, seed, focus="alloc")
    floor(rp, "c09.steals", 200, "permitted steals observed")
    floor(rp, "c09.elementwise", 200, "element-wise transfers observed")
    floor(rp, "c09.swap-both-heap", 20, "swaps of two heap buffers")
    return rp.finish()


def check_C10(tier, seed):
    rp = Report("C10", tier, seed, "exploration")
    rp.rule = ("pre/post snapshots + per-call element event log + allocation counter: fitting insert/emplace/push_back/append/resize/assign/same-allocator copy-assign "
               "keep capacity() and data() and do not touch elements before the first modified position; reserve(n) gives capacity>=n and is a no-op when n<=capacity; "
               "pop_back/erase/clear never change capacity/data; growing calls with a known count allocate once and relocate each old element at most once; "
               "sweep enumerates 'exactly full' / 'exactly fits' counts; tuple as for C01")
    mon = ["--monitors", "C10"]
    plan = []
    if tier == "quick":
        for k in ("tnx-l000", "tthrow-l000", "int-std", "tco-l010", "tmo-l111", "tnx-l101", "int-l111", "tnx-f000", "tnx-l000-u16"):
            plan += shards(Q[k], "asan-dbg", ["--mode", "sweep", "--level", 0] + mon, 2)
        for k in ("tnx-l000", "tthrow-l000", "int-std", "tco-l010", "tmo-l111", "tthrow-std", "tnx-l101ae", "tnx-l000c", "int-l111", "tnx-l101", "tsw-l110", "int-f101"):
            plan.append(hist_run(Q[k], "asan-dbg", ["--mode", "random", "--focus", "grow", "--cases", 500, "--len", 60, "--seed", seed] + mon))
    else:
        M = thorough_matrix()
        for k, c in M.items():
            plan += shards(c, "asan-dbg-o1", ["--mode", "sweep", "--level", 1] + mon, 2, k)
            plan.append(hist_run(c, "asan-dbg-o1", ["--mode", "random", "--focus", "grow", "--cases", 6000, "--len", 60, "--seed", seed] + mon, k))
    run_hist_plan(rp, "C10", plan)
    if tier != "quick":
        fuzz_stage(rp, "C10", {k: Q[k] for k in ("tnx-l000", "tthrow-l000", "int-std", "tco-l010", "tmo-l111", "tnx-l101", "int-l111", "tnx-l000c")}, 100000, seed, focus="grow")
    floor(rp, "c10.fitting-ops", 1000, "fitting ops checked")
    floor(rp, "c10.reallocating-ops", 300, "reallocating ops checked")
    floor(rp, "c10.reserve-noop", 30, "no-op reserves checked")
    return rp.finish()


def check_C11(tier, seed):
    rp = Report("C11", tier, seed, "exploration")
    rp.rule = ("push_back(v[i]), emplace_back(v[i]), insert(pos,v[i]), insert(pos,n,v[i]), emplace(pos,v[i]), resize(n,v[i]) for EVERY i, every pos and the counts "
               "{0,1,2,tail-1,tail,tail+1,free-1,free,free+1,2cap+1,5} from every canonical state (size x provenance), compared with the model in which v[i] is copied first; "
               "the registry (read of dead element) and ASan (use-after-free/scope) watch the call; plus aliasing-heavy random histories; tuple as for C01 with an alias tag")
    mon = ["--monitors", "C11", "--also", "C11", "--also-prefix", "registry."]
    plan = []
    lvl = 0 if tier == "quick" else 2
    fl = "asan-dbg" if tier == "quick" else "asan-dbg-o1"
    ks = ("int-std", "tnx-l000", "tthrow-l000", "tco-l010", "tnx-f000") if tier == "quick" else ("int-std", "tnx-l000", "tthrow-l000", "tco-l010", "tthrow-std", "tsw-l110", "tnx-l000c", "tnx-l101ae", "tnx-f000", "int-f101")
    for k in ks:
        plan += shards(Q[k], fl, ["--mode", "sweep", "--level", lvl, "--select", "alias"] + mon, 3 if tier == "quick" else 6)
        plan.append(hist_run(Q[k], fl, ["--mode", "random", "--focus", "alias", "--cases", 500 if tier == "quick" else 8000, "--len", 60, "--seed", seed] + mon))
    for k in ("int-std", "tnx-l000"):
        plan.append(hist_run(Q[k], "asan-rel", ["--mode", "random", "--focus", "alias", "--cases", 1000 if tier == "quick" else 10000, "--len", 60, "--seed", seed + 3] + mon))
    if tier != "quick":
        for k in ("int-std", "tthrow-l000"):
            plan += shards(Q[k], "clang-asan", ["--mode", "sweep", "--level", 1, "--select", "alias"] + mon, 4)
    run_hist_plan(rp, "C11", plan)
    if tier != "quick":
        fuzz_stage(rp, "C11", {k: Q[k] for k in ("int-std", "tnx-l000", "tthrow-l000", "tco-l010", "tthrow-std", "tsw-l110", "tnx-l000c", "tnx-l101ae")}, 100000, seed, focus="alias", also="C11", also_prefix="registry.")
    rp.exhaustive = True
    rp.extra["exhaustive_note"] = "all element indices i x all positions for the enumerated states; counts from the stated candidate set"
    return rp.finish()


def check_C15(tier, seed):
    rp = Report("C15", tier, seed, "exploration")
    rp.rule = ("true single-pass iterators (all copies share one cursor): each position must be dereferenced exactly once and incremented exactly once, in order, never through "
               "a stale copy, never at/after last; forward/bidirectional/random-access iterators carry bounds monitors; generator call count == count and call i lands at index i; "
               "result compared with the model; sweep over ctor/assign/insert/append x every iterator kind x positions x counts from every canonical state + range-heavy random histories")
    mon = ["--monitors", "C15"]
    plan = []
    lvl = 0 if tier == "quick" else 1
    fl = "asan-dbg" if tier == "quick" else "asan-dbg-o1"
    ks = ("int-std", "tnx-l000", "tthrow-l000", "tmo-l111", "tco-l010", "tnx-f000") if tier == "quick" else list(Q.keys())
    for k in ks:
        plan += shards(Q[k], fl, ["--mode", "sweep", "--level", lvl, "--select", "range"] + mon, 2 if tier == "quick" else 4)
        plan.append(hist_run(Q[k], fl, ["--mode", "random", "--focus", "range", "--cases", 500 if tier == "quick" else 8000, "--len", 60, "--seed", seed] + mon))
    run_hist_plan(rp, "C15", plan)
    if tier != "quick":
        fuzz_stage(rp, "C15", {k: Q[k] for k in ("int-std", "tnx-l000", "tthrow-l000", "tmo-l111", "tco-l010", "tthrow-l011", "tas-l000", "tnx-l101ae")}, 100000, seed, focus="range")
    floor(rp, "c15.stream-ranges", 500, "single-pass ranges fully consumed")
    return rp.finish()


# ------------------------------------------------------------------------------------------------
SAN = ["-O1", "-g1", "-fsanitize=address,undefined", "-fno-sanitize-recover=all", "-fno-omit-frame-pointer"]


def run_simple_engines(report, prop, engine, jobs, accept=None):
    """jobs: list of dicts {src, cc, flags, defines, args, name}.  Build + run + parse."""
    specs = [{"src": j["src"], "cc": j["cc"], "flags": j["flags"], "defines": j.get("defines"), "name": engine} for j in jobs]
    t0 = time.time()
    bins = build_many(specs)
    log("[%s] built %d %s binaries in %.1fs" % (prop, len(specs), engine, time.time() - t0))
    cmds, metas = [], []
    for j, b in zip(jobs, bins):
        if isinstance(b, BuildError):
            if j.get("compile_failure_is_violation"):
                report.add_violation("%s|%s|compile-rejected|%s" % (engine, prop, j["name"]),
                                     "harness that compiles on the pinned tree was rejected by %s %s: %s" % (j["cc"], " ".join(j["flags"]), b.diag[-2500:]),
                                     {"engine": engine, "replay_cmd": [j["cc"]] + j["flags"] + ["-I", os.path.join(svlib.HARNESS, "include"), "-I", svlib.HEADER_DIR,
                                                                          "-fsyntax-only", os.path.join(svlib.HARNESS, "src", j["src"])]})
            else:
                report.add_inconclusive("harness build failed for %s: %s" % (j["name"], b.diag[-1500:]))
            continue
        pre = (["env"] + ["%s=%s" % kv for kv in sorted(j["env"].items())]) if j.get("env") else []
        cmds.append(pre + [b] + [str(a) for a in j["args"]])
        metas.append({"engine": engine, "config": j["name"], "config_class": j.get("config_class", j["name"]), "mode": engine,
                      "replay_cmd": pre + [b] + [str(a) for a in j["args"]]})
    results = run_many(cmds, timeout=3000)
    for res, meta in zip(results, metas):
        parse_engine_output(res, report, prop, meta, accept_props=accept or {prop})


def check_C16(tier, seed):
    rp = Report("C16", tier, seed, "exploration")
    maxlen = 4 if tier == "quick" else 6
    rp.rule = ("EXHAUSTIVE: all ordered pairs of sequences over {0,1,2} of length 0..%d (%d^2 pairs) x inline-capacity pairs (0,0) (0,3) (3,0) (2,2) (2,5) (5,2), "
               "inline and heap representations; ==, !=, <, <=, >, >= (and the sign of <=> in C++20) must equal std::vector's and be mutually consistent; "
               "non-member erase / erase_if over all sequences x all values / 8 predicates; non-member begin..crend, size, ssize, empty, data, swap against the members; "
               "tuple = (function, element type, N pair, lengths, ordering class, representations)" % (maxlen, (3 ** (maxlen + 1) - 1) // 2))
    rp.exhaustive = True
    jobs = []
    def job(cc, std, typ):
        return {"src": "cmp.cpp", "cc": cc, "flags": ["-std=" + std] + SAN, "args": ["--type", typ, "--maxlen", maxlen], "name": "%s/%s/%s" % (cc, std, typ),
                "config_class": "%s/%s" % (std, typ), "compile_failure_is_violation": True}
    if tier == "quick":
        for typ in ("int", "lteq", "double", "nan"):
            jobs.append(job("g++", "c++17", typ))
        for typ in ("int", "lteq", "ship", "partial", "nan"):
            jobs.append(job("g++", "c++20", typ))
    else:
        for std in ("c++11", "c++14", "c++17", "c++20", "c++23"):
            for typ in ("int", "lteq", "double", "nan") + (("ship", "partial") if std in ("c++20", "c++23") else ()):
                jobs.append(job("g++", std, typ))
        for std in ("c++11", "c++14", "c++17", "c++20"):
            for typ in ("int", "lteq", "double", "nan") + (("ship", "partial") if std == "c++20" else ()):
                jobs.append(job("clang++", std, typ))
    run_simple_engines(rp, "C16", "cmp", jobs)
    return rp.finish()

def check_C14(tier, seed):
    rp = Report("C14", tier, seed, "exploration")
    rp.rule = ("per-operation predicate on every reallocating push_back/emplace_back/insert/emplace/append/resize/reserve/assign in growth-heavy random histories and the sweep "
               "(new capacity >= required and >= old + old/2 unless it equals max_size()); long runs of n one-at-a-time appends for N in {0,1,8,40} (int and a counting type) must "
               "perform <= ceil(log1.5 n)+4 allocations and <= 3n+N relocations; mixed growth (insert mid, append/insert ranges, resize, reserve, emplace) up to n elements; "
               "tuple = (workload, element type, N, op, realloc/fit) and (op, state class, growth-ratio class)")
    rp.assumptions = ["'1.5x' is read with integer floor (old + old/2)", "shrink_to_fit, copy-assignment between unequal allocators and constructors are not growth ops"]
    mon = ["--monitors", "C14"]
    plan = []
    n = 1000000 if tier == "quick" else 50000000
    if tier == "quick":
        for k in ("int-std", "tnx-l000", "tthrow-l000", "tco-l010", "tnx-l000-u16", "int-f101"):
            plan.append(hist_run(Q[k], "asan-dbg", ["--mode", "random", "--focus", "grow", "--cases", 500, "--len", 60, "--seed", seed] + mon))
            plan += shards(Q[k], "asan-dbg", ["--mode", "sweep", "--level", 0] + mon, 2)
    else:
        for k in Q:
            plan.append(hist_run(Q[k], "asan-dbg-o1", ["--mode", "random", "--focus", "grow", "--cases", 8000, "--len", 60, "--seed", seed] + mon))
            plan += shards(Q[k], "asan-dbg-o1", ["--mode", "sweep", "--level", 1] + mon, 2)
    run_hist_plan(rp, "C14", plan)
    if tier != "quick":
        fuzz_stage(rp, "C14", {k: Q[k] for k in ("int-std", "tnx-l000", "tthrow-l000", "tmo-l111", "tco-l010", "tnx-l101", "int-l111", "tthrow-std")}, 100000, seed, focus="grow")
    jobs = []
    for part in ("int", "cnt", "mixed"):
        jobs.append({"src": "growth.cpp", "cc": "g++", "flags": ["-std=c++17", "-O2", "-DNDEBUG"], "args": ["--n", n if part != "mixed" else n // 5, "--seed", seed, "--part", part],
                     "name": "growth/%s" % part, "config_class": "growth/%s" % part})
    jobs.append({"src": "growth.cpp", "cc": "g++", "flags": ["-std=c++17"] + SAN, "args": ["--n", 30000, "--seed", seed + 1, "--part", "all"],
                 "name": "growth/asan", "config_class": "growth/asan"})
    run_simple_engines(rp, "C14", "growth", jobs)
    floor(rp, "c14.reallocations", 1000, "reallocations checked in histories")
    floor(rp, "reallocations-checked", 100, "reallocations checked in long runs")
    return rp.finish()

def check_C12(tier, seed):
    rp = Report("C12", tier, seed, "exploration")
    rp.rule = ("allocators with size_type uint8_t/uint16_t/uint32_t/size_t (optionally with a max_size() cap so that the 32/64-bit limits are reachable without memory), element sizes 1/2/4/8, "
               "N in {0,4} and N > max_size(): for every op (push_back, emplace, insert n / input / forward / random range, append, assign, resize, reserve, ctor n / n,x / generator / ranges / copy from larger N) "
               "the expected outcome is computed in 64-bit arithmetic: beyond max_size() -> std::length_error and an unchanged container, otherwise exact size and contents; allocate(n>max_size()) is flagged by the allocator, "
               "ledger red zones + ASan catch writes past the block, capacity() must equal the ledger's n. uint8_t: EXHAUSTIVE over every size 0..max, every count 0..255 and every range length 0..300; "
               "wider types: boundary sampling {0,1,2,edge-1,edge,edge+1,2edge+1,type_max-1,type_max,type_max-size(+1),type_max+1+k,2(type_max+1)+3} with memory-free counting iterators up to 2^34; "
               "both assert-enabled and NDEBUG builds (the header's range-length check exists only without NDEBUG); tuple = (config, op, size class, count class, outcome); "
               "wrap monitor: clang builds with -fsanitize=unsigned-integer-overflow,implicit-conversion restricted (ignorelist) to functions defined in small_vector.hpp, every UBSan report is "
               "routed through __ubsan_on_report to the running operation (limits workloads and ordinary call histories): any wrap or truncation in the header's size arithmetic is a violation")
    jobs = []
    groups = (0, 1, 2, 3, 4)
    for gidx in groups:
        for flav, flags in (("dbg", ["-std=c++17", "-O1", "-g1", "-D_GLIBCXX_ASSERTIONS", "-fsanitize=address,undefined", "-fno-sanitize-recover=all"]),
                            ("rel", ["-std=c++17", "-O2", "-g1", "-DNDEBUG", "-fsanitize=address,undefined", "-fno-sanitize-recover=all"])):
            nsh = (8 if gidx == 0 else 2 if gidx == 4 else 1) if tier == "quick" else (12 if gidx == 0 else 2)
            for sh in range(nsh):
                jobs.append({"src": "limits.cpp", "cc": "g++", "flags": flags, "defines": {"LIM_GROUP": gidx},
                             "args": ["--seed", seed, "--shard", sh, "--nshards", nsh], "name": "limits/g%d/%s" % (gidx, flav), "config_class": flav})
    # wrap monitor (clang only): unsigned overflow / implicit truncation in the header's own arithmetic, attributed to the running op
    WRAP_ENV = {"UBSAN_OPTIONS": "halt_on_error=0:print_stacktrace=0"}
    for gidx in groups:
        for flav, extra in (("wrap-rel", ["-DNDEBUG"]),) + ((("wrap-dbg", []),) if tier != "quick" else ()):
            nsh = (4 if gidx == 0 else 1) if tier == "quick" else (12 if gidx == 0 else 2)
            for sh in range(nsh):
                jobs.append({"src": "limits.cpp", "cc": "clang++", "flags": svlib.FLAVOURS["clang-wrap"][1] + extra, "defines": {"LIM_GROUP": gidx}, "env": WRAP_ENV,
                             "args": ["--seed", seed + 2, "--shard", sh, "--nshards", nsh if tier != "quick" or gidx != 0 else 8], "name": "limits/g%d/%s" % (gidx, flav), "config_class": flav})
    if tier != "quick":
        for gidx in groups:
            jobs.append({"src": "limits.cpp", "cc": "clang++", "flags": ["-std=c++20", "-O1", "-g1", "-DNDEBUG", "-fsanitize=address,undefined", "-fno-sanitize-recover=all", "-fno-sanitize=object-size"],
                         "defines": {"LIM_GROUP": gidx}, "args": ["--seed", seed + 5], "name": "limits/g%d/clang-rel" % gidx, "config_class": "rel"})
            for extra in range(1, 6):
                if gidx == 0:
                    continue
                jobs.append({"src": "limits.cpp", "cc": "g++", "flags": ["-std=c++17", "-O2", "-g1", "-DNDEBUG", "-fsanitize=address,undefined", "-fno-sanitize-recover=all"],
                             "defines": {"LIM_GROUP": gidx}, "args": ["--seed", seed + 100 * extra], "name": "limits/g%d/rel" % gidx, "config_class": "rel"})
    run_simple_engines(rp, "C12", "limits", jobs)
    # the same wrap monitor under ordinary call histories (size_t configurations): any report inside the header is a C12 violation
    plan = []
    for k in (("int-std", "tnx-l000", "tnx-l000-u16", "int-l101-u16") if tier == "quick" else ("int-std", "tnx-l000", "tthrow-l011", "tmo-l111", "int-l111", "tco-l010", "tnx-l000-u16", "int-l101-u16", "tthrow-f011-u16", "int-f101")):
        plan.append(hist_run(Q[k], "clang-wrap", ["--mode", "random", "--cases", 20000 if tier == "quick" else 200000, "--len", 60, "--seed", seed, "--monitors", "C12"], env=WRAP_ENV))
        plan.append(hist_run(Q[k], "clang-wrap", ["--mode", "sweep", "--level", 0, "--monitors", "C12"], env=WRAP_ENV))
    run_hist_plan(rp, "C12", plan)
    rp.coverage["counters"]["wrap-monitored-processes"] = sum(1 for j in jobs if j.get("env")) + len(plan)
    floor(rp, "length_errors", 1000, "length_error outcomes observed")
    rp.exhaustive = True
    rp.extra["exhaustive_note"] = "exhaustive for the uint8_t configurations (every size, count 0..255, range length 0..300); boundary sampling for wider size types"
    return rp.finish()

def check_C18(tier, seed):
    rp = Report("C18", tier, seed, "fault_enumeration")
    rp.rule = ("(1) static table: for {nothrow/throwing} x {move ctor, move assign, swap} element types (8 + int) x N in {0,3} x source N in {0,2,3,5} x allocators {std, always-equal, L000, POCMA, POCS, L111, "
               "throwing default ctor, u16 size_type} the observed noexcept(...) of default/move/allocator/converting constructors, move assignment, assign(&&), swap (member/non-member), clear, observers and "
               "of operations that must not be noexcept is compared with the README formula re-implemented from the traits; iterator triviality/category/contiguity and every nested type are checked; "
               "(2) truthfulness: every op whose noexcept(...) is true for the configuration must perform zero allocate() and zero potentially-throwing element operations (random histories, sweep); every op "
               "NOT declared noexcept is run under single-fault enumeration over allocate, element ctor/assign/swap, iterator */++, generator and the allocator's default constructor: the fault must reach the caller "
               "-- a process that dies in std::terminate is the witness; tuple = (config, expression, documented value) for (1) and fault tuples for (2)")
    jobs = []
    for cc, std in (("g++", "c++17"), ("g++", "c++20"), ("g++", "c++11"), ("g++", "c++14")) + ((("clang++", "c++20"), ("clang++", "c++17"), ("g++", "c++23"), ("clang++", "c++11"), ("clang++", "c++14")) if tier != "quick" else ()):
        jobs.append({"src": "traits.cpp", "cc": cc, "flags": ["-std=" + std, "-O0"], "args": [], "name": "traits/%s/%s" % (cc, std), "config_class": std,
                     "compile_failure_is_violation": True})
    run_simple_engines(rp, "C18", "traits", jobs)
    mon = ["--monitors", "C18"]
    plan = []
    fl = "asan-dbg" if tier == "quick" else "asan-dbg-o1"
    lvl = 0 if tier == "quick" else 1
    ks = ("tnx-l000", "tthrow-l000", "tmo-l111", "tco-l010", "tsw-l110", "tas-l000") if tier == "quick" else list(Q.keys())
    for k in ks:
        plan += shards(Q[k], fl, ["--mode", "fault", "--level", lvl] + mon, 3 if tier == "quick" else 6)
        plan.append(hist_run(Q[k], fl, ["--mode", "random", "--focus", "alloc", "--cases", 400 if tier == "quick" else 5000, "--len", 60, "--seed", seed] + mon))
    for k in QTD:
        plan += shards(QTD[k], fl, ["--mode", "fault", "--level", lvl] + mon, 3 if tier == "quick" else 6)
        plan.append(hist_run(QTD[k], fl, ["--mode", "random", "--cases", 300 if tier == "quick" else 3000, "--len", 40, "--seed", seed] + mon))
    run_hist_plan(rp, "C18", plan)
    if tier != "quick":
        fuzz_stage(rp, "C18", dict({k: Q[k] for k in ("tnx-l000", "tthrow-l000", "tmo-l111", "tmot-l001", "tsw-l110", "tas-l000")}, **QTD), 60000, seed, fault=2, focus="alloc")
    floor(rp, "c18.noexcept-ops-observed", 1000, "noexcept operations observed at run time")
    floor(rp, "faults-fired", 1000, "injected faults")
    return rp.finish()

def layout_grid():
    cfgs = []
    for al in (1, 2, 4, 8, 16, 32, 64):
        for sz in range(al, 73, al):
            for state in (0, 1, 4, 8, 12, 16, 24):
                for st, stname in (("unsigned char", "u8"), ("unsigned short", "u16"), ("unsigned int", "u32"), ("unsigned long", "u64")):
                    cfgs.append((sz, al, state, st, stname))
    return cfgs


def check_C19(tier, seed):
    import hashlib
    rp = Report("C19", tier, seed, "exploration")
    rp.rule = ("generated probe programs print, for every configuration (element size 1..72 x alignment 1..64 with size a multiple of alignment, allocator state 0/1/4/8/12/16/24 bytes, size_type u8/u16/u32/u64), "
               "D = default_buffer_size, sizeof(small_vector<T,0,A>), sizeof(<T,D,A>), sizeof(<T,D+1,A>), alignof, inline_capacity(); oracle: sizeof(<T,D,A>) <= 64 < sizeof(<T,D+1,A>) (sizeof is monotone in N, so D is the largest "
               "count that fits) or D == 1 and not even one element fits; inline_capacity() == N; a stateless allocator with N = 0 gives exactly pointer + 2 size_type rounded to pointer alignment; at run time the inline "
               "buffer of objects placed at minimally aligned addresses is aligned for T (UBSan alignment on); tuple = (size, align, state, size_type)")
    rp.assumptions = ["sizeof(small_vector<T,N,A>) is monotone in N", "x86-64 GCC/Clang ABI"]
    grid = layout_grid()
    if tier == "quick":
        # stratified subset: every (align, state, size_type) stratum keeps sizes chosen by the seed
        sel = []
        for c in grid:
            h = int(hashlib.sha256(("%s|%d" % (c, seed)).encode()).hexdigest()[:8], 16)
            if c[0] in (1, 2, 4, 8, 16, 24, 32, 40, 64, 72) and h % 3 == 0 or h % 11 == 0:
                sel.append(c)
        grid = sel
    rp.exhaustive = tier != "quick"
    ntu = 16
    gen_dir = os.path.join(svlib.CACHE, "gen-layout-%s-%d" % (tier, seed))
    os.makedirs(gen_dir, exist_ok=True)
    jobs = []
    rt_every = 1 if tier == "quick" else 4
    for i in range(ntu):
        part = grid[i::ntu]
        lines = ['#include "layout_common.hpp"', "int main () {"]
        for j, (sz, al, state, st, stname) in enumerate(part):
            lines.append('  Probe<%d, %d, %d, %s>::print ("%s");' % (sz, al, state, st, stname))
            if j % rt_every == 0:
                lines.append('  Probe<%d, %d, %d, %s>::runtime ("%s");' % (sz, al, state, st, stname))
        lines += ['  std::printf ("{\\"type\\":\\"done\\",\\"chunks\\":1,\\"deaths\\":0}\\n");', "  return 0;", "}"]
        src = os.path.join(gen_dir, "layout_%02d.cpp" % i)
        text = "\n".join(lines) + "\n"
        if not os.path.exists(src) or open(src).read() != text:
            with open(src, "w") as f:
                f.write(text)
        jobs.append({"src": src, "cc": "g++", "flags": ["-std=c++17", "-O0", "-fsanitize=undefined", "-fno-sanitize-recover=all", "-I", os.path.join(svlib.HARNESS, "src")],
                     "args": [], "name": "layout/%02d" % i})
        if tier != "quick" and i % 4 == 0:
            jobs.append({"src": src, "cc": "clang++", "flags": ["-std=c++20", "-O0", "-I", os.path.join(svlib.HARNESS, "src")], "args": [], "name": "layout-clang/%02d" % i})
    specs = [{"src": j["src"], "cc": j["cc"], "flags": j["flags"], "name": "layout", "extra_inputs": [os.path.join(svlib.HARNESS, "src", "layout_common.hpp")]} for j in jobs]
    t0 = time.time()
    bins = build_many(specs)
    log("[C19] built %d layout probes in %.1fs" % (len(bins), time.time() - t0))
    cmds, names = [], []
    for j, b in zip(jobs, bins):
        if isinstance(b, BuildError):
            rp.add_violation("layout|C19|compile-rejected|%s" % j["name"], "layout probe rejected by the compiler: %s" % b.diag[-2000:], {"engine": "layout", "replay_cmd": compile_cmd_of(b)})
            continue
        cmds.append([b]); names.append(j["name"])
    results = run_many(cmds, timeout=1200)
    rows = 0
    for res, name in zip(results, names):
        if res["rc"] != 0:
            rp.add_violation("layout|C19|probe-died|%s" % name.split("/")[0], "layout probe exited with %s: %s" % (res["rc"], svlib.san_summary(res["err"])), {"engine": "layout", "replay_cmd": res["cmd"]})
        for line in res["out"].splitlines():
            if not line.startswith("{"):
                continue
            d = json.loads(line)
            if d["type"] == "layout":
                rows += 1
                cfgs = "S=%d,Al=%d,state=%d,st=%s" % (d["S"], d["Al"], d["state"], d["st"])
                rp.coverage["tuples"][cfgs] = 1
                rep = {"engine": "layout", "replay_cmd": res["cmd"], "config": cfgs, "observed": d}
                D = d["D"]
                if D < 1:
                    rp.add_violation("layout|C19|default.capacity-zero|%s,D=%d" % (cfgs, D),
                                     "%s: default inline capacity is %d; it must be the largest count that fits, or 1 when not even one element fits" % (cfgs, D), rep)
                elif d["sD1"] <= 64:
                    rp.add_violation("layout|C19|default.more-would-fit|%s,D=%d" % (cfgs, D),
                                     "%s: default inline capacity %d gives a %d-byte object, but %d elements also fit in 64 bytes (sizeof = %d)" % (cfgs, D, d["sD"], D + 1, d["sD1"]), rep)
                elif d["sD"] > 64 and D > 1:
                    rp.add_violation("layout|C19|default.object-exceeds-64|%s,D=%d" % (cfgs, D),
                                     "%s: default inline capacity %d gives a %d-byte object (> 64)" % (cfgs, D, d["sD"]), rep)
                if d["icD"] != D or d["ic0"] != 0:
                    rp.add_violation("layout|C19|inline_capacity|%s" % cfgs, "%s: inline_capacity() reports %d / %d for N = %d / 0" % (cfgs, d["icD"], d["ic0"], D), rep)
                if d["emptyA"]:
                    want = (8 + 2 * d["stsize"] + 7) // 8 * 8
                    if d["s0"] != want:
                        rp.add_violation("layout|C19|empty-base-size|%s" % cfgs, "%s: sizeof(small_vector<T,0,stateless A>) = %d, expected pointer + 2 size_type rounded up = %d" % (cfgs, d["s0"], want), rep)
                if len(rp.coverage["samples"]) < 6 and rows % 97 == 1:
                    rp.coverage["samples"].append(d)
            elif d["type"] == "layout-rt":
                rp.coverage["counters"]["runtime-placements"] = rp.coverage["counters"].get("runtime-placements", 0) + d["tried"]
                if d["bad"]:
                    cfgs = "S=%d,Al=%d,state=%d,st=%s" % (d["S"], d["Al"], d["state"], d["st"])
                    rp.add_violation("layout|C19|inline-buffer-misaligned|%s" % cfgs, "%s: inline buffer not aligned for T / not inside the object in %d of %d placements" % (cfgs, d["bad"], d["tried"]),
                                     {"engine": "layout", "replay_cmd": res["cmd"]})
    rp.coverage["evaluations"] = rows
    if rows < len(grid):
        rp.add_inconclusive("only %d of %d configurations were observed" % (rows, len(grid)))
    return rp.finish()

def check_C20(tier, seed):
    rp = Report("C20", tier, seed, "exploration")
    rp.rule = ("gdb 13 in batch mode loads the shipped printer module exactly as the README says and stops at checkpoint() after every operation of an uninstrumented -O0 -g inferior that walks random "
               "histories over small_vector<int,0/2/4>, <std::string,0/2>, <struct,4>, <int,3,stateful allocator>, <long,default N>; at each stop the printer's to_string() length/capacity, children() count and every "
               "child value, the iterator / const_iterator / value-initialised-iterator printers, and every expression of the natvis file (m_data.m_size, m_data.m_capacity, m_data.m_data_ptr, inline_capacity_v "
               "conditions, m_alloc, m_ptr, *m_ptr) evaluated by gdb on the same object are compared with the program's own dump (size(), capacity(), inlined(), data(), iteration); "
               "tuple = (element type/N, empty|inline|heap, full|slack, last op)")
    rp.assumptions = ["natvis rendering by Visual Studio itself is not executed; only the member paths are resolved (through gdb, on GCC/Clang DWARF)"]
    builds = [("g++", ["-std=c++17", "-O0", "-g"])]
    if tier != "quick":
        builds += [("clang++", ["-std=c++17", "-O0", "-g", "-fstandalone-debug"]), ("g++", ["-std=c++20", "-O0", "-g"])]   # -fstandalone-debug: clang otherwise omits std::string's members (extern template)
    builds = builds[:3]
    specs = [{"src": "gdbinf.cpp", "cc": cc, "flags": fl, "name": "gdbinf"} for cc, fl in builds]
    bins = build_many(specs)
    runs = 6 if tier == "quick" else 48
    steps = 300 if tier == "quick" else 3000
    out_dir = os.path.join(svlib.CACHE, "gdbmon-out")
    os.makedirs(out_dir, exist_ok=True)
    cmds, outs = [], []
    for bi, b in enumerate(bins):
        if isinstance(b, BuildError):
            rp.add_violation("gdbmon|C20|inferior-rejected|%s" % builds[bi][0], "the debugger inferior does not compile: %s" % b.diag[-2000:], {"engine": "gdbmon", "replay_cmd": compile_cmd_of(b)})
            continue
        for r in range(runs if bi == 0 else max(2, runs // 3)):
            out = os.path.join(out_dir, "out-%s-%d-%d-%d.jsonl" % (tier, seed, bi, r))
            cmds.append(["env", "SVMON_OUT=" + out, "SVMON_SUPPORT=" + os.path.join(svlib.REPO, "source", "support"),
                         "gdb", "-q", "-batch", "-nx", "-x", os.path.join(svlib.VERIF, "bin", "gdbmon.py"), "--args", b, str(seed * 1000 + r * 17 + bi), str(steps)])
            outs.append(out)
    for o in outs:
        if os.path.exists(o):
            os.remove(o)
    results = run_many(cmds, timeout=1500)
    for res, out in zip(results, outs):
        meta = {"engine": "gdbmon", "config": os.path.basename(out), "config_class": "gdb", "mode": "gdbmon", "replay_cmd": res["cmd"]}
        text = open(out).read() if os.path.exists(out) else ""
        r2 = dict(res)
        r2["out"] = text
        if res["rc"] != 0 and not text:
            rp.add_inconclusive("gdb run failed (%s): %s" % (res["rc"], (res["err"] or res["out"])[-500:]))
            continue
        r2["rc"] = 0
        parse_engine_output(r2, rp, "C20", meta)
    floor(rp, "checkpoints", 500, "checkpoints inspected through the printers")
    floor(rp, "m_alloc-resolved", 10, "natvis m_alloc path resolved on a stateful allocator")
    return rp.finish()

def check_C17(tier, seed):
    rp = Report("C17", tier, seed, "exploration")
    rp.rule = ("differential over builds: one portable C++11-subset corpus (seed-derived histories over int / trivially copyable struct / tracked non-trivial type, std::allocator and three ledger-allocator trait "
               "configurations incl. an 8-bit size_type that reaches length_error, cross-capacity copy/move/swap/append, comparisons, at() out_of_range, plus a 'converting' family that feeds other integral, enum and "
               "pointer types through raw pointers, std::vector and small_vector iterators) prints one digest per history over its full observation trace (op, exception kind, returned offset, size, capacity, inlined, every element); "
               "the digests of every build must be identical; builds = g++ x {c++11,14,17,20,23} and clang++ x {c++11,14,17,20}, with and without GCH_DISABLE_CONCEPTS for >= C++20; "
               "a build that rejects the corpus is a violation; tuple = (history id, family)")
    rp.assumptions = ["clang++ -std=c++2b is excluded: Clang 14 + libstdc++ 12 evaluate std::is_constant_evaluated() to true at run time (toolchain defect, DESIGN.md 2.4)",
                      "MSVC / libc++ are not available"]
    builds = []
    if tier == "quick":
        builds = [("g++", "c++11", 0), ("g++", "c++17", 0), ("g++", "c++20", 0), ("g++", "c++20", 1), ("clang++", "c++14", 0), ("clang++", "c++20", 0), ("g++", "c++23", 0)]
    else:
        for std in ("c++11", "c++14", "c++17", "c++20", "c++23"):
            builds.append(("g++", std, 0))
        for std in ("c++11", "c++14", "c++17", "c++20"):
            builds.append(("clang++", std, 0))
        builds += [("g++", "c++20", 1), ("g++", "c++23", 1), ("clang++", "c++20", 1)]
    cases = 120 if tier == "quick" else 3000
    nsh = 1 if tier == "quick" else 4
    names = ["%s/%s%s" % (cc, std, "/noconcepts" if nc else "") for cc, std, nc in builds]
    # (a) per-feature acceptance probes: every build must accept what any other build accepts
    FEATURES = {1: "same-width integral sources through raw pointers / std::vector iterators", 2: "same-width integral sources through small_vector iterators",
                3: "different-width integral / enum sources", 4: "pointer conversions through raw pointers / std::vector iterators", 5: "pointer conversions through small_vector iterators",
                6: "move-only element type with potentially-throwing move operations and std::allocator (reserve, push_back, insert, erase, resize, cross-capacity move assignment, swap)"}
    pspecs, pidx = [], []
    for bi, (cc, std, nc) in enumerate(builds):
        for f in FEATURES:
            d = {"XSTD_PROBE_ONLY": None}
            for g in FEATURES:
                if g != f:
                    d["XSTD_NO_F%d" % g] = None
            if nc:
                d["GCH_DISABLE_CONCEPTS"] = None
            pspecs.append({"src": "xstd.cpp", "cc": cc, "flags": ["-std=" + std, "-O0", "-fsyntax-only"], "defines": d, "name": "probe.o", "link": False})
            pidx.append((bi, f))
    t0 = time.time()
    pres = build_many(pspecs)
    log("[C17] compiled %d acceptance probes in %.1fs" % (len(pres), time.time() - t0))
    accepted = {f: {} for f in FEATURES}
    for (bi, f), r in zip(pidx, pres):
        accepted[f][bi] = not isinstance(r, BuildError)
        if isinstance(r, BuildError):
            accepted[f][("diag", bi)] = r.diag
    disabled = []
    for f, per in accepted.items():
        ok = [bi for bi in range(len(builds)) if per.get(bi)]
        bad = [bi for bi in range(len(builds)) if not per.get(bi)]
        rp.coverage["counters"]["probes-compiled"] = rp.coverage["counters"].get("probes-compiled", 0) + len(ok) + len(bad)
        if bad:
            disabled.append(f)
        if ok and bad:
            for bi in bad:
                rp.add_violation("xstd|C17|feature-rejected|F%d|%s" % (f, names[bi]),
                                 "%s: accepted by %s but rejected by %s: %s" % (FEATURES[f], ", ".join(names[b] for b in ok[:4]), names[bi], per[("diag", bi)][-1200:]),
                                 {"engine": "xstd", "replay_cmd": ["bash", "-c", per[("diag", bi)].split("\n")[0][5:]], "feature": f, "build": names[bi]})
    rp.extra["features_rejected_by_some_build"] = disabled
    specs = []
    for cc, std, noconcepts in builds:
        fl = ["-std=" + std, "-O1", "-g1"] + (["-fsanitize=address,undefined", "-fno-sanitize-recover=all"] if tier != "quick" or std in ("c++11", "c++20") else [])
        if cc == "clang++" and "-fsanitize=address,undefined" in fl:
            fl.append("-fno-sanitize=object-size")
        dd = {"XSTD_NO_F%d" % f: None for f in disabled}
        if noconcepts:
            dd["GCH_DISABLE_CONCEPTS"] = None
        specs.append({"src": "xstd.cpp", "cc": cc, "flags": fl, "defines": dd, "name": "xstd"})
    t0 = time.time()
    bins = build_many(specs)
    log("[C17] built %d corpus binaries in %.1fs" % (len(bins), time.time() - t0))
    cmds, idx = [], []
    for bi, b in enumerate(bins):
        if isinstance(b, BuildError):
            rp.add_violation("xstd|C17|corpus-rejected|%s" % names[bi], "build %s rejects the corpus that other builds accept: %s" % (names[bi], b.diag[-2500:]),
                             {"engine": "xstd", "replay_cmd": compile_cmd_of(b), "build": names[bi]})
            continue
        for sh in range(nsh):
            cmds.append([b, "--seed", str(seed + sh * 7919), "--cases", str(cases // nsh), "--len", "50"])
            idx.append((bi, sh))
    results = run_many(cmds, timeout=3000)
    table = {}   # (shard, id) -> {build: digest}
    fam = {}
    for (bi, sh), res in zip(idx, results):
        if res["rc"] != 0 or res["timeout"]:
            rp.add_violation("xstd|C17|corpus-died|%s" % names[bi], "corpus run died under build %s (rc %s): %s" % (names[bi], res["rc"], svlib.san_summary(res["err"])),
                             {"engine": "xstd", "replay_cmd": res["cmd"]})
            continue
        for line in res["out"].splitlines():
            if line.startswith('{"type":"digest"'):
                d = json.loads(line)
                table.setdefault((sh, d["id"]), {})[bi] = d["h"]
                fam[(sh, d["id"])] = d["family"]
    n_hist = 0
    for key, per in sorted(table.items()):
        n_hist += 1
        rp.coverage["tuples"]["%s|%s" % (fam[key], key[1])] = 1
        vals = set(per.values())
        if len(vals) > 1 and rp.coverage["counters"].get("mismatching-histories", 0) >= 6:
            rp.coverage["counters"]["mismatching-histories"] += 1
            rp.add_violation("xstd|C17|digest-mismatch|%s" % fam[key], "history %s (%s) behaves differently across builds (trace omitted: more than 6 mismatches)" % (key[1], fam[key]),
                             {"engine": "xstd", "replay_cmd": [bins[min(per)], "--seed", str(seed + key[0] * 7919), "--cases", str(cases // nsh), "--len", "50", "--trace-history", key[1]]})
        elif len(vals) > 1:
            rp.coverage["counters"]["mismatching-histories"] = rp.coverage["counters"].get("mismatching-histories", 0) + 1
            # pick two disagreeing builds and show the first differing trace line
            ref = min(per)
            other = next(b for b in per if per[b] != per[ref])
            sh = key[0]
            t1 = svlib.run_proc([bins[ref], "--seed", str(seed + sh * 7919), "--cases", str(cases // nsh), "--len", "50", "--trace-history", key[1]], timeout=600)
            t2 = svlib.run_proc([bins[other], "--seed", str(seed + sh * 7919), "--cases", str(cases // nsh), "--len", "50", "--trace-history", key[1]], timeout=600)
            l1 = [l for l in t1["out"].splitlines() if not l.startswith("{")]
            l2 = [l for l in t2["out"].splitlines() if not l.startswith("{")]
            diff = next(((a, b) for a, b in zip(l1, l2) if a != b), ("?", "?"))
            rp.add_violation("xstd|C17|digest-mismatch|%s" % fam[key],
                             "history %s (%s) behaves differently under %s and %s; first differing trace line: [%s] vs [%s]" % (key[1], fam[key], names[ref], names[other], diff[0][:300], diff[1][:300]),
                             {"engine": "xstd", "replay_cmd": [bins[other], "--seed", str(seed + sh * 7919), "--cases", str(cases // nsh), "--len", "50", "--trace-history", key[1]],
                              "builds": [names[ref], names[other]]})
        if len(per) < len([b for b in bins if not isinstance(b, BuildError)]):
            rp.add_inconclusive("history %s missing from some builds" % (key,))
        if n_hist % 97 == 1 and len(rp.coverage["samples"]) < 5:
            rp.coverage["samples"].append({"history": key[1], "family": fam[key], "digest": sorted(vals)[0], "builds_agreeing": len(per)})
    rp.coverage["evaluations"] = n_hist * len(bins)
    rp.coverage["counters"].update({"histories": n_hist, "builds": len(bins), "digests-compared": sum(len(v) for v in table.values())})
    rp.extra["builds"] = names
    if n_hist < 100:
        rp.add_inconclusive("too few histories compared (%d)" % n_hist)
    return rp.finish()

ACC_TABLE = [
    # (call, description, flags)
    (1, "V(n)", ["ACC_DEF"]), (1, "V(n)", ["ACC_DEF", "ACC_MOVE"]), (1, "V(n)", ["ACC_DEF", "ACC_COPY"]),
    (2, "resize(n)", ["ACC_DEF", "ACC_MOVE"]), (2, "resize(n)", ["ACC_DEF", "ACC_COPY"]),
    (3, "push_back(const&)", ["ACC_COPY"]), (3, "push_back(const&)", ["ACC_COPY", "ACC_MOVE"]),
    (4, "emplace_back/push_back(&&)", ["ACC_MOVE"]), (4, "emplace_back/push_back(&&)", ["ACC_COPY"]),
    (5, "reserve/shrink_to_fit", ["ACC_MOVE"]), (5, "reserve/shrink_to_fit", ["ACC_COPY"]),
    (6, "V(first,last) forward", []), (6, "V(first,last) forward", ["ACC_MOVE"]),
    (7, "V(n,x)", ["ACC_COPY"]), (8, "V(const V&)", ["ACC_COPY"]), (9, "V(n); pop_back; clear", ["ACC_DEF"]),
    (10, "resize(n,x)", ["ACC_COPY"]), (11, "erase", ["ACC_MOVE", "ACC_MASSIGN"]), (11, "erase", ["ACC_COPY", "ACC_CASSIGN"]),
    (12, "insert(pos,&&)/emplace", ["ACC_MOVE", "ACC_MASSIGN"]), (13, "assign(n,x)/insert(pos,n,x)", ["ACC_COPY", "ACC_CASSIGN"]),
    (14, "V(V&&); v = V&&", ["ACC_MOVE", "ACC_MASSIGN"]), (15, "assign/insert forward range", ["ACC_MOVE", "ACC_MASSIGN"]),
    (15, "assign/insert forward range", ["ACC_COPY", "ACC_CASSIGN"]), (16, "swap", ["ACC_MOVE", "ACC_MASSIGN"]),
    (17, "emplace_back(int)", ["ACC_MOVE"]), (18, "v = const V&", ["ACC_COPY", "ACC_CASSIGN"]),
]


def check_C13(tier, seed):
    rp = Report("C13", tier, seed, "exploration")
    rp.rule = ("(1) twin replay: the same seed-derived histories run on small_vector<int>, <trivially copyable struct> and <non-trivial struct with the same value> (std::allocator and a ledger allocator, N pairs (2,5) (0,3) (4,1) (8,8)); "
               "the full observation traces (op, exception, returned offset, size, capacity, inlined, every element) must have identical digests; (2) bytes: ASan + ledger red zones on all of it; "
               "(3) conversion matrix: ~90 (From,To) cells over same/different-width integrals, char kinds, bool, enums with several underlying types, float/double, pointers (Derived*->second base, virtual base, cv, void*) x "
               "{emplace_back, emplace, generator ctor, range ctor/assign/insert/append} x {From*, const From*, std::vector/std::list/small_vector iterators, move_iterator, reverse(reverse), input iterator}: every stored element must "
               "equal static_cast<To>(source); (4) acceptance: minimal-requirement archetypes per operation, compiled as a trivially copyable variant and a non-trivial twin: whenever the twin is accepted the trivially copyable "
               "variant must be too, and every matrix cell must compile; tuple = (From->To, size relation, triviality) / twin id / probe id")
    # ---- (3) conversion matrix
    parts = (1, 3, 4, 7, 8) if tier == "quick" else (1, 2, 3, 4, 5, 6, 7, 8)
    jobs = []
    for part in parts:
        jobs.append({"src": "conv.cpp", "cc": "g++", "flags": ["-std=c++17", "-O0", "-g1", "-fsanitize=address,undefined", "-fno-sanitize-recover=all"], "defines": {"CONV_PART": part},
                     "args": [], "name": "conv/part%d/g++17" % part, "config_class": "g++17", "compile_failure_is_violation": True})
    for part in ((7,) if tier == "quick" else parts):
        jobs.append({"src": "conv.cpp", "cc": "g++", "flags": ["-std=c++20", "-O0", "-g1", "-fsanitize=address,undefined", "-fno-sanitize-recover=all"], "defines": {"CONV_PART": part},
                     "args": [], "name": "conv/part%d/g++20" % part, "config_class": "g++20", "compile_failure_is_violation": True})
    if tier != "quick":
        for part in parts:
            jobs.append({"src": "conv.cpp", "cc": "clang++", "flags": ["-std=c++20", "-O1", "-g1", "-fsanitize=address,undefined", "-fno-sanitize-recover=all", "-fno-sanitize=object-size"],
                         "defines": {"CONV_PART": part}, "args": [], "name": "conv/part%d/clang20" % part, "config_class": "clang20", "compile_failure_is_violation": True})
            jobs.append({"src": "conv.cpp", "cc": "g++", "flags": ["-std=c++11", "-O2", "-DNDEBUG", "-fsanitize=address,undefined", "-fno-sanitize-recover=all"],
                         "defines": {"CONV_PART": part}, "args": [], "name": "conv/part%d/g++11rel" % part, "config_class": "g++11rel", "compile_failure_is_violation": True})
    run_simple_engines(rp, "C13", "conv", jobs)
    # ---- (1)+(2) twin replay
    tw = []
    for cc, fl, nm in (("g++", ["-std=c++17", "-O1", "-g1", "-fsanitize=address,undefined", "-fno-sanitize-recover=all", "-D_GLIBCXX_ASSERTIONS"], "g++17-dbg"),
                       ("g++", ["-std=c++20", "-O2", "-g1", "-DNDEBUG", "-fsanitize=address,undefined", "-fno-sanitize-recover=all"], "g++20-rel")) + \
                      ((("clang++", ["-std=c++17", "-O1", "-g1", "-fsanitize=address,undefined", "-fno-sanitize-recover=all", "-fno-sanitize=object-size"], "clang17"),) if tier != "quick" else ()):
        tw.append((cc, fl, nm))
    specs = [{"src": "xstd.cpp", "cc": cc, "flags": fl, "defines": {"XSTD_TWIN": None}, "name": "xstd"} for cc, fl, _ in tw]
    bins = build_many(specs)
    cmds, meta = [], []
    nsh = 2 if tier == "quick" else 8
    cases = 150 if tier == "quick" else 4000
    for (cc, fl, nm), b in zip(tw, bins):
        if isinstance(b, BuildError):
            rp.add_inconclusive("twin harness build failed (%s): %s" % (nm, b.diag[-800:]))
            continue
        for sh in range(nsh):
            cmds.append([b, "--twin", "--seed", str(seed + 31 * sh), "--cases", str(cases // nsh), "--len", "50"])
            meta.append(nm)
    twins = 0
    for res, nm in zip(run_many(cmds, timeout=3000), meta):
        if res["rc"] != 0 or res["timeout"]:
            rp.add_violation("twin|C13|run-died|%s" % nm, "twin replay died (rc %s): %s" % (res["rc"], svlib.san_summary(res["err"])), {"engine": "twin", "replay_cmd": res["cmd"]})
            continue
        for line in res["out"].splitlines():
            if line.startswith('{"type":"twin"'):
                d = json.loads(line)
                twins += 1
                rp.coverage["tuples"]["twin|%s|%s" % (nm, d["id"].split(".")[1])] = rp.coverage["tuples"].get("twin|%s|%s" % (nm, d["id"].split(".")[1]), 0) + 1
                if not (d["int"] == d["triv"] == d["nontriv"]):
                    rp.add_violation("twin|C13|digest-mismatch|%s" % ("triv" if d["int"] != d["triv"] else "nontriv"),
                                     "history %s (%s): int / trivially copyable struct / non-trivial struct traces differ: %s %s %s" % (d["id"], nm, d["int"], d["triv"], d["nontriv"]),
                                     {"engine": "twin", "replay_cmd": res["cmd"] + ["--trace-history", d["id"]]})
            elif line.startswith('{"type":"violation"'):
                d = json.loads(line)
                rp.add_violation("twin|" + d["key"], d["msg"], {"engine": "twin", "replay_cmd": res["cmd"]})
    rp.coverage["counters"]["twin-histories"] = twins
    rp.coverage["evaluations"] += twins * 3
    # ---- (4) acceptance probes
    pspecs, pmeta = [], []
    stds = ("c++17", "c++20") if tier == "quick" else ("c++11", "c++14", "c++17", "c++20", "c++23")
    for std in stds:
        for call, desc, flags in ACC_TABLE:
            for n in ((3,) if tier == "quick" else (0, 3)):
                for vec in (0, 1):
                    if vec and n == 0:
                        continue
                    for triv in (1, 0):
                        d = {"ACC_CALL": call, "ACC_TRIVIAL": triv, "ACC_VEC": vec, "ACC_N": n}
                        for f in flags:
                            d[f] = None
                        pspecs.append({"src": "accept.cpp", "cc": "g++", "flags": ["-std=" + std, "-O0", "-fsyntax-only"], "defines": d, "name": "acc.o", "link": False})
                        pmeta.append((std, call, desc, tuple(flags), n, vec, triv))
    t0 = time.time()
    pres = build_many(pspecs)
    log("[C13] compiled %d acceptance probes in %.1fs" % (len(pres), time.time() - t0))
    table = {}
    for m, r in zip(pmeta, pres):
        table[m] = r
    probes = 0
    for (std, call, desc, flags, n, vec, triv), r in table.items():
        if vec or triv == 0:
            continue
        probes += 1
        twin = table[(std, call, desc, flags, n, 0, 0)]
        ok_triv, ok_twin = not isinstance(r, BuildError), not isinstance(twin, BuildError)
        rp.coverage["tuples"]["accept|%s|%s|N%d|%s|%s" % (std, desc, n, "+".join(flags) or "none", "ok" if ok_triv else "rejected-both" if not ok_twin else "REJECTED")] = 1
        if ok_twin and not ok_triv:
            rp.add_violation("accept|C13|trivial-variant-rejected|%s|%s" % (desc, "+".join(flags) or "none"),
                             "%s on small_vector<T,%d> (%s): accepted for the non-trivial archetype {%s} but rejected for its trivially copyable twin: %s" % (desc, n, std, ", ".join(flags) or "no special members", r.diag[-1500:]),
                             {"engine": "accept", "replay_cmd": compile_cmd_of(r), "call": call, "flags": list(flags), "std": std})
    rp.coverage["counters"]["acceptance-probes"] = probes
    floor(rp, "twin-histories", 100, "twin histories compared")
    floor(rp, "acceptance-probes", 40, "acceptance probes compiled")
    return rp.finish()

def cx_generate(seed, nprog, steps, out_path, configs):
    """Write one TU with `nprog` random programs (constexpr data), their compile-time evaluation and the run-time comparison."""
    import random
    rnd = random.Random(seed)
    lines = ['#include "cx_interp.hpp"', ""]
    checks = []
    samples = []
    tuples = set()
    for k in range(nprog):
        T, N, M = configs[k % len(configs)]
        st = []
        for i in range(steps):
            op = rnd.randrange(33)
            if rnd.random() < 0.15:
                op = rnd.choice((11, 11, 28, 28, 29, 32, 25))   # more reserve + aliasing calls: fitting aliased inserts need spare capacity
            if rnd.random() < 0.4:
                op |= 64
            st.append("{%d,%d,%d,%d}" % (op, rnd.randrange(50), rnd.randrange(9), 1 + rnd.randrange(90)))
            tuples.add("%s|N%d|M%d|op%d|%s" % (T, N, M, op & 63, "b" if op & 64 else "a"))
        lines.append("constexpr Prog<%d> prog_%d = {{ %s }};" % (steps, k, ", ".join(st)))
        lines.append("constexpr Obs<%d> ct_%d = run<%s, %d, %d> (prog_%d);" % (steps, k, T, N, M, k))
        checks.append('  bad += check_program<%s, %d, %d> (%d, "%s/N%d,%d", prog_%d, ct_%d);' % (T, N, M, k, T, N, M, k, k))
        if k < 2:
            samples.append("%s N=(%d,%d): %s" % (T, N, M, " ".join(st[:8])))
    for j in range(4):
        n = (0, 2, 4, 9)[j]
        sd = rnd.randrange(1, 250)
        lines.append("constexpr std::array<long, CONV_OBS> cv_%d = conv_scenario<%d> (%d);" % (j, n, sd))
        checks.append("  bad += check_conv<%d> (%d, %d, cv_%d);" % (n, j, sd, j))
        tuples.add("conversion-scenario|N%d" % n)
    lines += ["", "int main ()", "{", "  int bad = 0;"] + checks
    lines += ['  std::printf ("{\\"type\\":\\"cx\\",\\"programs\\":%d,\\"steps\\":%d,\\"bad\\":%%d}\\n", bad);' % (nprog, steps),
              '  std::printf ("{\\"type\\":\\"done\\",\\"chunks\\":1,\\"deaths\\":0}\\n");', "  return 0;", "}"]
    text = "\n".join(lines) + "\n"
    if not os.path.exists(out_path) or open(out_path).read() != text:
        with open(out_path, "w") as f:
            f.write(text)
    return samples, tuples


def check_C08(tier, seed):
    import re
    rp = Report("C08", tier, seed, "exploration")
    rp.rule = ("seeded random programs (30 steps over two containers small_vector<T,N> / small_vector<T,M>, T in {int, literal non-trivial type}, N,M in {0,1,2,4} incl. pairs; 33 op kinds: push/emplace/insert/resize (value, n, range, "
               "aliasing arguments v[i])/erase/pop/clear/resize/reserve/shrink_to_fit/assign/append/cross-capacity copy+move assign/swap/copy+move construction/comparisons/erase/erase_if) are emitted as constexpr data; each program is "
               "evaluated by the compiler's constant evaluator into a constexpr array of per-step observations (returned offsets, sizes, content checksums, growth capacities, front/back) -- the evaluator rejects UB, out-of-lifetime access "
               "and unreleased allocations -- and again at run time on a laundered copy; every observation must agree. Not compared (unspecified): inlined(), moved-from contents, capacity after a move/swap. "
               "tuple = (element type, N, M, op kind)")
    rp.assumptions = ["clang++ -std=c++2b is excluded (toolchain defect, DESIGN.md 2.4)"]
    configs = [("int", 2, 5), ("Lit", 2, 5), ("int", 0, 3), ("Lit", 0, 4), ("int", 4, 4), ("Lit", 1, 1), ("int", 1, 0), ("Lit", 4, 2), ("int", 0, 0), ("Lit", 2, 0)]
    ntu = 16 if tier == "quick" else 64
    nprog = 30 if tier == "quick" else 80
    steps = 30
    gen_dir = os.path.join(svlib.CACHE, "gen-cx-%s-%d" % (tier, seed))
    os.makedirs(gen_dir, exist_ok=True)
    builds = [("g++", "c++20")] if tier == "quick" else [("g++", "c++20"), ("g++", "c++23"), ("clang++", "c++20")]
    jobs = []
    for i in range(ntu):
        src = os.path.join(gen_dir, "cx_%02d.cpp" % i)
        samples, tup = cx_generate(seed * 1000 + i, nprog, steps, src, configs)
        for t in tup:
            rp.coverage["tuples"][t] = 1
        if i == 0:
            rp.coverage["samples"] += samples
        cc, std = builds[i % len(builds)]
        flags = ["-std=" + std, "-O0", "-I", os.path.join(svlib.HARNESS, "src")]
        flags += ["-fconstexpr-ops-limit=1000000000", "-fconstexpr-loop-limit=10000000"] if cc == "g++" else ["-fconstexpr-steps=1000000000"]
        jobs.append({"src": src, "cc": cc, "flags": flags, "name": "cx/%02d/%s-%s" % (i, cc, std), "idx": i})
    specs = [{"src": j["src"], "cc": j["cc"], "flags": j["flags"], "name": "cx", "extra_inputs": [os.path.join(svlib.HARNESS, "src", "cx_interp.hpp")]} for j in jobs]
    t0 = time.time()
    bins = build_many(specs)
    log("[C08] compiled (= constant-evaluated) %d program TUs in %.1fs" % (len(bins), time.time() - t0))
    cmds, names = [], []
    programs = 0
    for j, b in zip(jobs, bins):
        if isinstance(b, BuildError):
            # the constant evaluator rejected a program: UB / leak / non-constant expression
            ids = sorted(set(re.findall(r"(?:ct|prog)_(\d+)", b.diag)))
            first = [l for l in b.diag.splitlines() if "error" in l][:3]
            rp.add_violation("cx|C08|constant-evaluation-rejected|%s" % j["cc"],
                             "the constant evaluator of %s rejected program(s) %s of %s: %s" % (j["cc"], ",".join(ids[:5]) or "?", os.path.basename(j["src"]), " || ".join(first)[:1500]),
                             {"engine": "cx", "replay_cmd": [j["cc"]] + j["flags"] + ["-I", svlib.HEADER_DIR, "-fsyntax-only", j["src"]]})
            continue
        cmds.append([b]); names.append(j["name"])
    for res, nm in zip(run_many(cmds, timeout=1200), names):
        meta = {"engine": "cx", "config": nm, "config_class": nm.split("/")[-1], "mode": "cx", "replay_cmd": res["cmd"]}
        parse_engine_output(res, rp, "C08", meta)
        for line in res["out"].splitlines():
            if line.startswith('{"type":"cx"'):
                d = json.loads(line)
                programs += d["programs"]
                rp.coverage["evaluations"] += d["programs"] * d["steps"]
    for k in range(nprog):
        T, N, M = configs[k % len(configs)]
        rp.coverage["tuples"]["%s|N%d|M%d" % (T, N, M)] = 1
    rp.coverage["counters"]["programs"] = programs
    rp.coverage["counters"]["steps"] = programs * steps
    rp.extra["compilers"] = sorted(set("%s -std=%s" % b for b in builds))
    floor(rp, "programs", 100, "programs evaluated at compile time and at run time")
    return rp.finish()


CHECKS = {
    "C01": check_C01, "C02": check_C02, "C03": check_C03, "C04": check_C04, "C05": check_C05, "C06": check_C06,
    "C07": check_C07, "C08": check_C08, "C09": check_C09, "C10": check_C10, "C11": check_C11, "C15": check_C15, "C12": check_C12, "C13": check_C13, "C14": check_C14, "C16": check_C16, "C17": check_C17, "C18": check_C18, "C19": check_C19, "C20": check_C20,
}


def replay(path):
    r = json.load(open(path))
    if r.get("engine") == "hist":
        b = svlib.build("hist.cpp", flavour=r["flavour"], defines=r["defines"], name="hist")
        args = [a for a in r["args"]]
        # strip sharding so that the case is found
        for opt in ("--shard", "--nshards"):
            if opt in args:
                i = args.index(opt)
                del args[i:i + 2]
        case = str(r.get("case", "")).split(":")[-1]
        cmd = [b] + args + ["--only-case", case, "--trace", "--nofork"]
        res = svlib.run_proc(cmd, timeout=600)
        sys.stdout.write(res["out"][-20000:])
        sys.stderr.write(res["err"][-8000:])
        bad = res["rc"] != 0 or '"type":"violation"' in res["out"]
        print("REPLAY %s: %s" % (path, "violation reproduced" if bad else "no violation"))
        return 1 if bad else 0
    if r.get("engine") == "fuzz":
        b = svlib.build("hist.cpp", flavour=r["flavour"], defines=r["defines"], name="histfuzz")
        if not r.get("artifact") or not os.path.exists(r["artifact"]):
            print("replay: the stored fuzz input %s is missing" % r.get("artifact"))
            return 2
        res = svlib.run_proc([b, "-detect_leaks=0", r["artifact"]], timeout=900, env=dict(r.get("env", {}), SVMON_FUZZ_TRACE="1"))
        sys.stdout.write(res["out"][-20000:])
        sys.stderr.write(res["err"][-8000:])
        bad = res["rc"] != 0 or '"type":"violation"' in res["out"]
        print("REPLAY %s: %s" % (path, "violation reproduced" if bad else "no violation"))
        return 1 if bad else 0
    if "replay_cmd" in r:
        res = svlib.run_proc(r["replay_cmd"], timeout=600)
        sys.stdout.write(res["out"][-20000:])
        sys.stderr.write(res["err"][-8000:])
        return 1 if res["rc"] != 0 else 0
    print("replay: unknown engine in %s" % path)
    return 2


def main():
    if len(sys.argv) >= 2 and sys.argv[1] == "setup":
        for d in (svlib.CACHE, svlib.REPLAYS, svlib.EVIDENCE):
            os.makedirs(d, exist_ok=True)
        for tool in ("g++", "clang++", "gdb", "valgrind", "python3"):
            if not any(os.access(os.path.join(p, tool), os.X_OK) for p in os.environ.get("PATH", "").split(":")):
                print("setup: missing tool %s" % tool)
                return 2
        print("setup ok")
        return 0
    if len(sys.argv) >= 3 and sys.argv[1] == "replay":
        return replay(sys.argv[2])
    ap = argparse.ArgumentParser()
    ap.add_argument("prop")
    ap.add_argument("--tier", default=os.environ.get("VERIF_TIER", "quick"))
    a = ap.parse_args()
    if a.prop not in CHECKS:
        print("unknown property %s" % a.prop)
        return 2
    seed = svlib.seed_from_env()
    svlib.prune_cache()
    try:
        return CHECKS[a.prop](a.tier, seed)
    except BuildError as e:
        print("INCONCLUSIVE property=%s harness build failed: %s" % (a.prop, e.diag[-3000:]))
        return 2


if __name__ == "__main__":
    sys.exit(main())
