# gdbmon.py -- runs INSIDE gdb (gdb -batch -x gdbmon.py --args inferior seed steps).
# Loads the shipped pretty-printer exactly as the README says, stops at checkpoint() after every
# operation of the inferior and compares what the printers / natvis member paths show with the
# program's own dump.  Writes JSON lines to $SVMON_OUT.
import gdb
import json
import os
import re
import sys
import xml.etree.ElementTree as ET

OUT = open(os.environ["SVMON_OUT"], "w")
SUPPORT = os.environ["SVMON_SUPPORT"]          # <repo>/source/support
violations = 0
tuples = {}
counters = {"checkpoints": 0, "children-compared": 0, "iterators-compared": 0, "natvis-evals": 0, "m_alloc-resolved": 0}
samples = []


def emit(d):
    OUT.write(json.dumps(d) + "\n")
    OUT.flush()


def violate(monitor, key, msg):
    global violations
    violations += 1
    if violations <= 60:
        emit({"type": "violation", "prop": "C20", "monitor": monitor, "key": "C20|%s|%s" % (monitor, key), "case": "step:%s" % CUR.get("step"), "msg": msg + " | " + json.dumps(CUR)})


CUR = {}
KINDS = [("int", 0), ("int", 2), ("int", 4), ("string", 0), ("string", 2), ("P", 4), ("int", 3), ("long", None)]

try:
    sys.path.append(os.path.join(SUPPORT, "python"))
    from gch.gdb.prettyprinters import small_vector  # noqa: F401  (the README's instruction)
except Exception as e:  # the shipped module does not even load
    CUR = {"step": 0}
    violate("printer.load", "import", "importing gch.gdb.prettyprinters.small_vector failed: %r" % (e,))

# natvis items, by ROLE: what Visual Studio would show for each of them must equal the corresponding observer
#   ("size", expr)  ("capacity", expr)  ("data", expr)  ("allocator", expr, condition)  ("inlined-cond", expr)  ("allocated-cond", expr)
#   ("it-value", expr)  ("it-ptr", expr)
NATVIS = {}
try:
    ns = {"n": "http://schemas.microsoft.com/vstudio/debugger/natvis/2010"}
    root = ET.parse(os.path.join(SUPPORT, "visualstudio", "small_vector.natvis")).getroot()
    for t in root.findall("n:Type", ns):
        items = []
        is_it = "iterator" in t.get("Name")
        for el in t.iter():
            tag = el.tag.split("}")[-1]
            text = (el.text or "").strip()
            if tag == "DisplayString":
                inner = re.findall(r"\{([^{}]+)\}", text.replace("{{", "").replace("}}", ""))
                if is_it:
                    for m in inner:
                        items.append(("it-value", m))
                else:
                    for m in inner:
                        items.append(("size", m))        # the display string shows size={...}
                    if el.get("Condition"):
                        items.append(("inlined-cond" if "inlined" in text else "allocated-cond" if "allocated" in text else "cond", el.get("Condition")))
            elif tag == "Size":
                items.append(("size", text))
            elif tag == "ValuePointer":
                items.append(("data", text))
            elif tag == "Item":
                name = el.get("Name") or ""
                if "capacity" in name:
                    items.append(("capacity", text))
                elif "allocator" in name:
                    items.append(("allocator", text, el.get("Condition")))
                elif "ptr" in name:
                    items.append(("it-ptr", text))
                else:
                    items.append(("other", text))
        NATVIS[t.get("Name")] = items
    if not any(i[0] == "size" for v in NATVIS.values() for i in v) or not any(i[0] == "data" for v in NATVIS.values() for i in v):
        raise ValueError("natvis has no <Size>/<ValuePointer> for small_vector")
except Exception as e:
    CUR = {"step": 0}
    violate("natvis.parse", "xml", "natvis file cannot be parsed / lacks the expected items: %r" % (e,))

IDENT = re.compile(r"(?<![\w.>])([A-Za-z_]\w*)")


def natvis_eval(expr, obj):
    """Evaluate a natvis expression in the context of object expression `obj` (member names are relative to it)."""
    def repl(m):
        name = m.group(1)
        if name in ("sizeof", "true", "false", "nullptr", "this"):
            return name
        return "(%s).%s" % (obj, name)
    return gdb.parse_and_eval(IDENT.sub(repl, expr))


def enc(kind, v):
    k = KINDS[kind][0]
    if k in ("int", "long"):
        return int(v)
    if k == "P":
        return int(v["a"])
    n = int(v["_M_string_length"])
    first = int(v["_M_dataplus"]["_M_p"].dereference()) if n else 0
    return n * 1000 + first


def inspect():
    global CUR
    kind = int(gdb.parse_and_eval("g_kind"))
    size = int(gdb.parse_and_eval("g_size"))
    cap = int(gdb.parse_and_eval("g_capacity"))
    inl = int(gdb.parse_and_eval("g_inlined"))
    step = int(gdb.parse_and_eval("g_step"))
    opn = gdb.parse_and_eval("g_opname").string()
    itidx = int(gdb.parse_and_eval("g_it_index"))
    CUR = {"step": step, "kind": kind, "elem": KINDS[kind][0], "N": KINDS[kind][1], "op": opn, "size": size, "capacity": cap, "inlined": inl}
    counters["checkpoints"] += 1
    expect = [int(gdb.parse_and_eval("g_expect[%d]" % i)) for i in range(min(size, 64))]
    obj = "(*g_p%d)" % kind
    val = gdb.parse_and_eval(obj)
    tkey = "%s/N%s" % KINDS[kind]
    state = "empty" if size == 0 else ("inline" if inl else "heap")
    tuples["%s|%s|%s|%s" % (tkey, state, "full" if size == cap else "slack", opn)] = 1
    pp = gdb.default_visualizer(val)
    children = []
    if pp is None:
        violate("printer.lookup", tkey, "no pretty-printer matched type %s" % val.type)
    else:
        try:
            s = pp.to_string()
            m = re.search(r"length (\d+), capacity (\d+)", s or "")
            if not m or int(m.group(1)) != size or int(m.group(2)) != cap:
                violate("printer.to_string", tkey, "printer says %r but size()=%d capacity()=%d" % (s, size, cap))
            children = list(pp.children())
            if len(children) != size:
                violate("printer.children-count", tkey, "printer yields %d children, size() is %d" % (len(children), size))
            for i, (name, cv) in enumerate(children[:64]):
                counters["children-compared"] += 1
                if name != "[%d]" % i or i >= len(expect) or enc(kind, cv) != expect[i]:
                    violate("printer.child-value", tkey, "child %d (%s) shows %s, iteration gives code %s" % (i, name, str(cv)[:60], expect[i] if i < len(expect) else None))
                    break
            if hasattr(pp, "display_hint") and pp.display_hint() != "array":
                violate("printer.display_hint", tkey, "display_hint is %r" % (pp.display_hint(),))
        except Exception as e:
            violate("printer.exception", tkey, "printer raised %r" % (e,))
    # iterators
    try:
        itv = gdb.parse_and_eval("g_it%d" % kind)
        ipp = gdb.default_visualizer(itv)
        if ipp is None:
            violate("iterator.lookup", tkey, "no pretty-printer matched iterator type %s" % itv.type)
        elif itidx >= 0 and itidx < len(children):
            counters["iterators-compared"] += 1
            got = ipp.to_string()
            want = str(children[itidx][1])
            if got != want:
                violate("iterator.value", tkey, "iterator printer shows %r, element %d is %r" % (got, itidx, want))
        elif size == 0 and KINDS[kind][1] == 0 and cap == 0:
            got = ipp.to_string()
            if "non-dereferenceable" not in (got or ""):
                violate("iterator.null", tkey, "begin() of an empty N=0 container printed as %r" % (got,))
        if kind == 1 and itidx >= 0 and itidx < len(children):
            cpp = gdb.default_visualizer(gdb.parse_and_eval("g_cit1"))
            if cpp is None or cpp.to_string() != str(children[itidx][1]):
                violate("iterator.const-value", tkey, "const_iterator printer disagrees with the element")
        npp = gdb.default_visualizer(gdb.parse_and_eval("g_it_null"))
        if npp is None or "non-dereferenceable" not in (npp.to_string() or ""):
            violate("iterator.value-initialised", tkey, "value-initialised iterator not reported as non-dereferenceable")
    except Exception as e:
        violate("iterator.exception", tkey, "iterator printer raised %r" % (e,))
    # natvis member paths
    data = int(gdb.parse_and_eval("(unsigned long) g_data"))
    N = KINDS[kind][1]
    for tname, items in NATVIS.items():
        is_it = "iterator" in tname
        for item in items:
            role, ex = item[0], item[1]
            try:
                if is_it:
                    if itidx < 0 or itidx >= len(children):
                        continue
                    v = natvis_eval(ex, "g_it%d" % kind)
                    counters["natvis-evals"] += 1
                    if role == "it-value" and enc(kind, v) != expect[itidx]:
                        violate("natvis.iterator-value", tkey, "natvis iterator display {%s} shows a different element" % ex)
                    if role == "it-ptr" and int(v) != data + itidx * int(children[itidx][1].type.sizeof):
                        violate("natvis.iterator-ptr", tkey, "natvis [ptr] item %s is not &v[%d]" % (ex, itidx))
                    continue
                if role == "allocator":
                    try:
                        v = natvis_eval(ex, obj)
                        counters["m_alloc-resolved"] += 1
                        if kind == 6 and int(v["tag"]) != 1234:
                            violate("natvis.m_alloc", tkey, "natvis [allocator] item does not show the container's allocator")
                    except gdb.error:
                        if kind == 6:
                            violate("natvis.m_alloc-unresolved", tkey, "natvis [allocator] path %s does not resolve for a stateful allocator" % ex)
                    continue
                v = natvis_eval(ex, obj)
                counters["natvis-evals"] += 1
                if role == "size" and int(v) != size:
                    violate("natvis.size", tkey, "natvis shows size %s = %d, size() = %d" % (ex, int(v), size))
                elif role == "capacity" and int(v) != cap:
                    violate("natvis.capacity", tkey, "natvis [capacity] %s = %d, capacity() = %d" % (ex, int(v), cap))
                elif role == "data" and int(v) != data:
                    violate("natvis.data_ptr", tkey, "natvis <ValuePointer> %s != data()" % ex)
                elif role == "inlined-cond" and bool(v) != bool(inl):
                    violate("natvis.inlined-condition", tkey, "natvis '(inlined)' condition is %s, inlined() is %s" % (bool(v), bool(inl)))
                elif role == "allocated-cond" and bool(v) == bool(inl):
                    violate("natvis.allocated-condition", tkey, "natvis '(allocated)' condition is %s, inlined() is %s" % (bool(v), bool(inl)))
            except gdb.error as e:
                violate("natvis.unresolved", "%s|%s" % (tkey, ex), "natvis expression %r does not resolve: %s" % (ex, e))
    if N is not None:
        try:
            icv = int(gdb.parse_and_eval("%s.inline_capacity_v" % obj))
            if icv != N:
                violate("natvis.inline_capacity_v", tkey, "inline_capacity_v = %d, N = %d" % (icv, N))
        except gdb.error as e:
            violate("natvis.unresolved", "%s|inline_capacity_v" % tkey, "inline_capacity_v does not resolve: %s" % e)
    if len(samples) < 5 and step % 37 == 1 and pp is not None:
        samples.append({"state": CUR, "printer": pp.to_string(), "children": [str(c[1])[:24] for c in children[:6]]})


gdb.execute("set pagination off")
gdb.execute("set confirm off")
gdb.execute("set print frame-info location", to_string=True)
gdb.Breakpoint("checkpoint")
try:
    gdb.execute("run", to_string=True)
    while True:
        try:
            frame = gdb.selected_frame()
        except gdb.error:
            break
        if frame.name() != "checkpoint":
            break
        try:
            inspect()
        except Exception as e:  # monitor bug or unreadable inferior: report, never hide
            violate("monitor.exception", "inspect", "monitor failed: %r" % (e,))
        gdb.execute("continue", to_string=True)
except gdb.error as e:
    emit({"type": "note", "gdb_error": str(e)})
emit({"type": "coverage", "evaluations": counters["checkpoints"], "tuples": tuples, "counters": counters, "samples": [json.dumps(s) for s in samples]})
emit({"type": "done", "chunks": 1, "deaths": 0})
OUT.close()
