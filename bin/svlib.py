#!/usr/bin/env python3
"""svlib -- build cache, parallel runner, known-findings matching and evidence writing shared by
all checks.  Everything is rebuilt from /repo's current working tree (content-addressed cache)."""
import concurrent.futures as cf
import fcntl
import fnmatch
import hashlib
import json
import os
import re
import shutil
import subprocess
import sys
import time

VERIF = os.path.dirname(os.path.dirname(os.path.abspath(__file__)))
REPO = os.environ.get("SVMON_REPO", "/repo")          # override is used only by the self-test driver
HEADER_DIR = os.path.join(REPO, "source", "include")
HEADER = os.path.join(HEADER_DIR, "gch", "small_vector.hpp")
HARNESS = os.path.join(VERIF, "harness")
CACHE = os.environ.get("SVMON_CACHE", os.path.join(VERIF, ".cache"))
REPLAYS = os.environ.get("SVMON_REPLAYS", os.path.join(VERIF, "replays"))     # overrides are used only by the self-test driver
EVIDENCE = os.environ.get("SVMON_EVIDENCE", os.path.join(VERIF, "evidence"))
FINDINGS = os.path.join(VERIF, "KNOWN_FINDINGS.txt")
JOBS = int(os.environ.get("SVMON_JOBS", "16"))

FLAVOURS = {
    # one sanitizer family per build
    "asan-dbg":   ("g++", ["-std=c++17", "-O0", "-g1", "-fsanitize=address,undefined", "-fno-sanitize-recover=all",
                           "-D_GLIBCXX_ASSERTIONS", "-fno-omit-frame-pointer"]),
    "asan-dbg-o1": ("g++", ["-std=c++17", "-O1", "-g1", "-fsanitize=address,undefined", "-fno-sanitize-recover=all",
                            "-D_GLIBCXX_ASSERTIONS", "-fno-omit-frame-pointer"]),
    "asan-rel":   ("g++", ["-std=c++17", "-O2", "-g1", "-DNDEBUG", "-fsanitize=address,undefined",
                           "-fno-sanitize-recover=all", "-fno-omit-frame-pointer"]),
    "asan-dbg20": ("g++", ["-std=c++20", "-O0", "-g1", "-fsanitize=address,undefined", "-fno-sanitize-recover=all",
                           "-D_GLIBCXX_ASSERTIONS", "-fno-omit-frame-pointer"]),
    "clang-asan": ("clang++", ["-std=c++20", "-O1", "-g1", "-fsanitize=address,undefined", "-fno-sanitize-recover=all",
                               "-fno-sanitize=object-size", "-fno-omit-frame-pointer"]),
    # coverage-guided driver (libFuzzer exists only in clang)
    "clang-fuzz": ("clang++", ["-std=c++20", "-O1", "-g1", "-fsanitize=fuzzer,address,undefined", "-fno-sanitize-recover=all",
                               "-fno-sanitize=object-size", "-fno-omit-frame-pointer"]),
    # wrap monitor: unsigned overflow / implicit truncation inside the header's functions only, reported through __ubsan_on_report
    "clang-wrap": ("clang++", ["-std=c++20", "-O1", "-g1", "-fsanitize=unsigned-integer-overflow,implicit-conversion",
                               "-fsanitize-recover=unsigned-integer-overflow,implicit-conversion",
                               "-fsanitize-ignorelist=" + os.path.join(HARNESS, "include", "svmon", "ubsan_ignorelist.txt"), "-DSVMON_UBSAN_HOOK"]),
    "plain-rel":  ("g++", ["-std=c++17", "-O2", "-DNDEBUG"]),
    "plain-dbg":  ("g++", ["-std=c++17", "-O1", "-g"]),
}

SAN_ENV = {
    "ASAN_OPTIONS": "detect_leaks=0:abort_on_error=0:exitcode=66:detect_stack_use_after_return=1:strict_string_checks=1",
    "UBSAN_OPTIONS": "print_stacktrace=1:halt_on_error=1:exitcode=67",
}


def log(*a):
    print(*a, file=sys.stderr, flush=True)


_hash_cache = {}


def file_hash(path):
    st = os.stat(path)
    key = (path, st.st_mtime_ns, st.st_size)
    if key not in _hash_cache:
        with open(path, "rb") as f:
            _hash_cache[key] = hashlib.sha256(f.read()).hexdigest()
    return _hash_cache[key]


def tree_hash(paths):
    h = hashlib.sha256()
    for p in sorted(paths):
        if os.path.isdir(p):
            for root, _, files in sorted(os.walk(p)):
                for fn in sorted(files):
                    fp = os.path.join(root, fn)
                    h.update(fp.encode())
                    h.update(file_hash(fp).encode())
        elif os.path.exists(p):
            h.update(p.encode())
            h.update(file_hash(p).encode())
    return h.hexdigest()


_compiler_version = {}


def compiler_version(cc):
    if cc not in _compiler_version:
        _compiler_version[cc] = subprocess.run([cc, "--version"], capture_output=True, text=True).stdout.split("\n")[0]
    return _compiler_version[cc]


def prune_cache(max_age_hours=12.0):
    """Content-addressed entries of superseded trees/harness versions are never hit again: drop every entry whose lock
    file (touched by each build() call) is older than max_age_hours.  Disk space is limited."""
    now = time.time()
    try:
        names = os.listdir(CACHE)
    except OSError:
        return
    for n in names:
        d = os.path.join(CACHE, n)
        try:
            ref = os.path.join(d, "lock")
            age = now - os.stat(ref if os.path.exists(ref) else d).st_mtime
            if age > max_age_hours * 3600:
                shutil.rmtree(d, ignore_errors=True)
        except OSError:
            pass


class BuildError(Exception):
    def __init__(self, msg, diag):
        super().__init__(msg)
        self.diag = diag


def build(src, flavour=None, defines=None, cc=None, flags=None, extra_inputs=(), name=None, link=True,
          include_header=True, extra_flags=()):
    """Compile `src` (path relative to harness/src or absolute) and return the binary path.
    The cache key covers the small_vector header, the monitor library, the source and all flags."""
    if flavour:
        cc0, fl0 = FLAVOURS[flavour]
        cc = cc or cc0
        flags = list(fl0) + list(flags or [])
    flags = list(flags or []) + list(extra_flags)
    defines = dict(defines or {})
    srcp = src if os.path.isabs(src) else os.path.join(HARNESS, "src", src)
    dflags = ["-D%s=%s" % (k, v) if v is not None else "-D%s" % k for k, v in sorted(defines.items())]
    inputs = [os.path.join(HARNESS, "include"), srcp] + list(extra_inputs)
    if include_header:
        inputs.append(HEADER)
    key = hashlib.sha256(json.dumps([cc, compiler_version(cc), flags, dflags, tree_hash(inputs), link]).encode()).hexdigest()[:24]
    d = os.path.join(CACHE, key)
    out = os.path.join(d, name or "bin")
    ok_marker = os.path.join(d, "ok")
    fail_marker = os.path.join(d, "fail.txt")
    os.makedirs(d, exist_ok=True)
    with open(os.path.join(d, "lock"), "w") as lk:
        fcntl.flock(lk, fcntl.LOCK_EX)
        if os.path.exists(ok_marker) and os.path.exists(out):
            return out
        if os.path.exists(fail_marker):
            raise BuildError("compile failed (cached): %s" % srcp, open(fail_marker).read())
        cmd = [cc] + flags + dflags + ["-I", os.path.join(HARNESS, "include"), "-I", HEADER_DIR, srcp]
        cmd += ["-o", out] if link else ["-c", "-o", out]
        t0 = time.time()
        p = subprocess.run(cmd, capture_output=True, text=True)
        if p.returncode != 0:
            diag = "CMD: %s\n%s" % (" ".join(cmd), (p.stderr or "")[-6000:])
            with open(fail_marker, "w") as f:
                f.write(diag)
            raise BuildError("compile failed: %s" % srcp, diag)
        with open(ok_marker, "w") as f:
            f.write("%s\n%.1fs\n" % (" ".join(cmd), time.time() - t0))
        return out


def build_many(specs):
    """specs: list of kwargs dicts for build(); returns list of paths or BuildError objects."""
    res = [None] * len(specs)
    with cf.ThreadPoolExecutor(max_workers=JOBS) as ex:
        futs = {ex.submit(build, **s): i for i, s in enumerate(specs)}
        for f in cf.as_completed(futs):
            i = futs[f]
            try:
                res[i] = f.result()
            except BuildError as e:
                res[i] = e
    return res


def run_proc(cmd, timeout=1800, env=None, cwd=None):
    e = dict(os.environ)
    e.update(SAN_ENV)
    if env:
        e.update(env)
    t0 = time.time()
    try:
        p = subprocess.run(cmd, capture_output=True, text=True, timeout=timeout, env=e, cwd=cwd, errors="replace")
        return {"cmd": cmd, "rc": p.returncode, "out": p.stdout, "err": p.stderr, "wall": time.time() - t0, "timeout": False}
    except subprocess.TimeoutExpired as ex:
        return {"cmd": cmd, "rc": -1, "out": (ex.stdout or b"").decode(errors="replace") if isinstance(ex.stdout, bytes) else (ex.stdout or ""),
                "err": (ex.stderr or b"").decode(errors="replace") if isinstance(ex.stderr, bytes) else (ex.stderr or ""),
                "wall": time.time() - t0, "timeout": True}


def run_many(cmds, timeout=1800, jobs=None):
    res = [None] * len(cmds)
    with cf.ThreadPoolExecutor(max_workers=jobs or JOBS) as ex:
        futs = {ex.submit(run_proc, c, timeout): i for i, c in enumerate(cmds)}
        for f in cf.as_completed(futs):
            res[futs[f]] = f.result()
    return res


# --------------------------------------------------------------------------------------------
# Known findings

class Findings:
    def __init__(self, path=FINDINGS):
        self.findings = []   # (prop, key-pattern, text)
        self.fixed = []
        self.exact = {}
        paths = [path] + sorted(p for p in (os.path.join(VERIF, f) for f in os.listdir(VERIF))
                                if os.path.basename(p).startswith("KNOWN_FINDINGS_") and p.endswith(".txt"))
        for path in paths:
            if not os.path.exists(path):
                continue
            for line in open(path):
                line = line.strip()
                if not line or line.startswith("#"):
                    continue
                m = re.match(r"finding:\s+property=(\S+)\s+key=(.+?)\s+::\s+(.*)$", line)
                if m:
                    pat = m.group(2).strip()
                    if any(ch in pat for ch in "*?["):
                        self.findings.append((m.group(1), pat, m.group(3)))
                    else:
                        self.exact[(m.group(1), pat)] = m.group(3)
                    continue
                m = re.match(r"fixed:\s+property=(\S+)\s+(\S+)\s+(.*)$", line)
                if m:
                    self.fixed.append((m.group(1), m.group(2), m.group(3)))

    def match(self, prop, key):
        if (prop, key) in self.exact:
            return key, self.exact[(prop, key)]
        for p, pat, text in self.findings:
            if p == prop and (pat == key or fnmatch.fnmatchcase(key, pat)):
                return pat, text
        return None


# --------------------------------------------------------------------------------------------
# Result collection

class Report:
    """Collects violations for one property check and renders the verdict."""

    def __init__(self, prop, tier, seed, level):
        self.prop, self.tier, self.seed, self.level = prop, tier, seed, level
        self.t0 = time.time()
        self.violations = []      # dicts: key, msg, replay(dict)
        self.inconclusive = []    # strings
        self.coverage = {"evaluations": 0, "tuples": {}, "counters": {}, "samples": []}
        self.extra = {}
        self.assumptions = []
        self.rule = ""
        self.exhaustive = None
        self.known = Findings()

    def add_violation(self, key, msg, replay):
        self.violations.append({"key": key, "msg": msg, "replay": replay})

    def add_inconclusive(self, why):
        self.inconclusive.append(why)

    def merge_coverage(self, cov):
        self.coverage["evaluations"] += cov.get("evaluations", 0)
        for k, v in cov.get("tuples", {}).items():
            self.coverage["tuples"][k] = self.coverage["tuples"].get(k, 0) + v
        for k, v in cov.get("counters", {}).items():
            self.coverage["counters"][k] = self.coverage["counters"].get(k, 0) + v
        for s in cov.get("samples", []):
            if len(self.coverage["samples"]) < 8:
                self.coverage["samples"].append(s)

    def finish(self):
        """Print verdict lines, write evidence and replays, return the exit code."""
        os.makedirs(REPLAYS, exist_ok=True)
        os.makedirs(EVIDENCE, exist_ok=True)
        new, known_hits = [], {}
        seen = set()
        for v in self.violations:
            hit = self.known.match(self.prop, v["key"])
            if hit:
                known_hits.setdefault(hit[0], [hit[1], 0])[1] += 1
                continue
            if v["key"] in seen:
                continue
            seen.add(v["key"])
            new.append(v)
        for pat, (text, n) in sorted(known_hits.items()):
            print("KNOWN-FINDING: property=%s %s [key=%s, observed %d time(s)]" % (self.prop, text, pat, n))
        n_out = 0
        for v in new:
            n_out += 1
            rid = hashlib.sha256((v["key"] + json.dumps(v["replay"], sort_keys=True)).encode()).hexdigest()[:12]
            path = os.path.join(REPLAYS, "%s-%s.json" % (self.prop, rid))
            rep = dict(v["replay"])
            rep.update({"property": self.prop, "key": v["key"], "message": v["msg"], "seed": self.seed, "tier": self.tier})
            with open(path, "w") as f:
                json.dump(rep, f, indent=1)
            if n_out <= 25:
                print("VIOLATION property=%s replay=%s" % (self.prop, path))
                print("  key: %s" % v["key"])
                print("  %s" % v["msg"][:1500])
        if n_out > 25:
            print("  ... %d more distinct violation keys (replay files written)" % (n_out - 25))
        distinct = len(self.coverage["tuples"])
        cov = {
            "evaluations": int(self.coverage["evaluations"]),
            "distinct_nontrivial": int(distinct),
            "rule": self.rule,
            "samples": self.coverage["samples"][:8] or ["(no sample recorded)"],
            "counters": self.coverage["counters"],
        }
        if self.exhaustive is not None:
            cov["exhaustive"] = bool(self.exhaustive)
        cov.update(self.extra)
        ev = {
            "property_id": self.prop, "tier": self.tier, "seed": int(self.seed), "level": self.level,
            "coverage": cov, "assumptions": self.assumptions, "wall_s": round(time.time() - self.t0, 2),
            "violations": len(new), "known_findings_observed": sum(n for _, n in known_hits.values()),
            "inconclusive": self.inconclusive,
        }
        with open(os.path.join(EVIDENCE, "%s.json" % self.prop), "w") as f:
            json.dump(ev, f, indent=1)
        if new:
            return 1
        if self.inconclusive:
            for w in self.inconclusive[:10]:
                print("INCONCLUSIVE property=%s %s" % (self.prop, w))
            return 2
        print("OK property=%s tier=%s evaluations=%d distinct=%d wall=%.1fs" %
              (self.prop, self.tier, cov["evaluations"], distinct, time.time() - self.t0))
        return 0


def parse_engine_output(res, report, prop, replay_base, accept_props=None):
    """Parse JSON lines of an engine run; feed the report.  replay_base: dict describing how to rebuild/run."""
    deaths = 0
    done = False
    tail = san_summary(res["err"][-200000:])
    for line in res["out"].splitlines():
        line = line.strip()
        if not line.startswith("{"):
            continue
        try:
            d = json.loads(line)
        except ValueError:
            continue
        t = d.get("type")
        if t == "coverage":
            report.merge_coverage(d)
        elif t == "violation":
            if accept_props is None or d["prop"] in accept_props:
                rb = dict(replay_base)
                rb["case"] = d.get("case")
                key = "%s|%s|%s" % (replay_base.get("engine", "?"), d["key"], replay_base.get("config_class", ""))
                report.add_violation(key, "%s [%s %s]" % (d["msg"], replay_base.get("config", ""), d.get("case")), rb)
        elif t == "death":
            deaths += 1
            rb = dict(replay_base)
            rb["case"] = "%s:%s" % (replay_base.get("mode", ""), d.get("case"))
            key = "%s|%s|death.%s|%s|%s" % (replay_base.get("engine", "?"), prop, d["kind"], d.get("key", ""), replay_base.get("config_class", ""))
            report.add_violation(key, "process died (%s) during: %s [%s case %s]%s" %
                                 (d["kind"], d.get("desc", ""), replay_base.get("config", ""), d.get("case"), tail), rb)
        elif t == "death-limit":
            report.add_inconclusive("engine stopped after %s process deaths at case %s of %s (remaining cases not explored): %s" %
                                    (d.get("deaths"), d.get("stopped_at"), d.get("total"), replay_base.get("config", "")))
        elif t == "done":
            done = True
    if res["timeout"]:
        report.add_inconclusive("watchdog: %s timed out after %.0fs" % (" ".join(res["cmd"][:6]), res["wall"]))
    elif res["rc"] != 0 and not deaths:
        key = "%s|%s|engine-exit|%s" % (replay_base.get("engine", "?"), prop, replay_base.get("config_class", ""))
        report.add_violation(key, "engine exited with status %s: %s %s" % (res["rc"], " ".join(res["cmd"]), tail), dict(replay_base))
    elif not done and res["rc"] == 0 and replay_base.get("expect_done", True):
        report.add_inconclusive("engine produced no completion record: %s" % " ".join(res["cmd"][:8]))


def san_summary(err):
    if not err:
        return ""
    keep = []
    for line in err.splitlines():
        if ("ERROR: AddressSanitizer" in line or "runtime error:" in line or "SUMMARY:" in line or "SVMON-DEATH" in line
                or "Assertion" in line or "terminate called" in line or "what():" in line):
            keep.append(line.strip())
    s = " || ".join(keep[:6])
    return (" :: " + s[:1200]) if s else ""


def seed_from_env():
    try:
        return int(os.environ.get("VERIF_SEED", "1"))
    except ValueError:
        return 1
