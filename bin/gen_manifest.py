#!/usr/bin/env python3
"""Regenerates /verif/MANIFEST.json from the table below (kept next to the checks so that it stays valid)."""
import json
import os
import subprocess

VERIF = os.path.dirname(os.path.dirname(os.path.abspath(__file__)))
props = [json.loads(l) for l in open(os.path.join(VERIF, "properties.jsonl"))]

CLAIMED = {
    "C01": ("exploration", "differential monitor: real container vs std::vector model over random histories + canonical-state sweep + iterator-algebra monitor, ASan/UBSan builds; thorough adds coverage-guided (libFuzzer) histories and valgrind memcheck",
            "Holds on the histories explored (about 2M ops quick; thorough ~70M ops incl. 2.4M coverage-guided histories) for the sampled element flavours (incl. over-aligned), allocator configurations (incl. fancy pointers, 16-bit size_type) and N pairs; not a proof for all histories/types.",
            "std::vector<int> is the reference; g++ 12 / clang 14 with ASan+UBSan; element types are the Tracked flavours and int", "3 C01"),
    "C02": ("exploration", "invariant probe at every quiescent point (after ops, after injected throws, on moved-from sources), ledger-backed, ASan/UBSan",
            "The probe is a pure function of public observers, the object's address range and the allocation ledger; it ran after every op of every history / sweep case / fault run explored.",
            "allocation ledger and arena canaries are trusted; run-time only; data() alignment is part of the probe (over-aligned flavour)", "3 C02"),
    "C03": ("exploration", "online element-lifetime registry (object identity by address) + quiescent live-set check, ASan for trivial types",
            "Every construct/assign/destroy/read of an element is checked at the event; the live set is compared with the containers after every op and after every injected throw.",
            "instrumented element types report truthfully; int elements rely on ASan", "3 C03"),
    "C04": ("exploration", "allocation ledger (pairing, n, allocator equality, leak/dangling at quiescence) + per-op allocate counter against the no-allocate rule; operator-new shim for std::allocator",
            "Held on all explored histories for 12+ allocator configurations incl. std::allocator, and for histories that never exceed N (zero allocator traffic).",
            "LedgerAlloc / operator new shim observe every allocation of the container", "3 C04"),
    "C05": ("fault_enumeration", "single-fault enumeration over every element-constructor / allocate throw point of every strong-guarantee op from enumerated states; snapshot before/after",
            "All throw points k=1..T of each enumerated (state, op, argument) case were fired; the state space itself is a bounded small-scope enumeration plus random history tails.",
            "countdown fault injector in instrumented types; masks follow the statement (iterator faults and move-only move ctor excluded)", "3 C05"),
    "C06": ("fault_enumeration", "single and paired fault enumeration over element/allocator/iterator/generator throw points of every op; probe + registry + ledger + reuse script after each throw; process death is a violation",
            "All single throw points (pairs for roll-back paths) of each enumerated case; cases are a bounded enumeration plus random history tails.",
            "as C05; reuse script exercises read/assign/emplace/reserve/erase/clear/destroy", "3 C06"),
    "C07": ("exploration", "allocator-id tracking through every construction/assignment/swap with expected ids computed from the propagation traits; buffer-owner check against the ledger",
            "Exhaustive operand-state grid for binary ops per configuration + random histories, for 7 (quick) / all 16 (thorough) trait combinations.",
            "allocator equality is id equality; always-equal allocators make the id check vacuous by definition", "3 C07"),
    "C08": ("exploration", "differential: the compilers' constant evaluators (UB-rejecting interpreters) vs run-time execution of the same constexpr interpreter over generated programs",
            "480 (quick) / 5120 (thorough) random 30-step programs (33 op kinds incl. aliasing arguments) over 10 (T,N,M) configurations plus converting scenarios (bool/int/unsigned/short targets fed from other integral types); GCC 12 in C++20/23 and Clang 14 in C++20.",
            "the constant evaluators of GCC 12 / Clang 14 are the UB oracle; clang++ -std=c++2b excluded (toolchain defect)", "3 C08"),
    "C09": ("exploration", "pre/post data()/serial snapshots + per-call element event log + allocate counter; steal_permitted computed from the pre-state",
            "Every move ctor / move assign / swap explored (exhaustive operand grid incl. capacity <,==,> destination N, plus random histories) was checked for O(1) transfer when permitted.",
            "element event log is complete for Tracked types; int relies on address identity only", "3 C09"),
    "C10": ("exploration", "pre/post capacity/data snapshots, prefix element identity + event log, allocate counter",
            "Held for every fitting / reallocating / removing op in the sweep ('exactly full', 'exactly fits' enumerated) and growth-heavy random histories.",
            "as C09", "3 C10"),
    "C11": ("exploration", "exhaustive small-scope aliasing enumeration (every i, every pos, boundary counts, every canonical state) against a copy-first model; registry + ASan watch the call",
            "Exhaustive over the stated small scope for int and three Tracked flavours; random aliasing-heavy histories on top.",
            "model = std::vector with the argument copied first", "3 C11"),
    "C12": ("exploration", "expected outcome computed in 64-bit arithmetic vs observed (length_error / exact contents); allocator flags allocate(n>max_size()); ledger red zones + ASan; exhaustive for 8-bit size_type; wrap monitor: clang unsigned-integer-overflow/implicit-conversion checks restricted to the header, routed through __ubsan_on_report to the running operation",
            "Exhaustive for the uint8_t configurations (every size, count, range length 0..300); boundary sampling for 16/32/64-bit; assert and NDEBUG builds.",
            "memory-free counting iterators stand in for huge ranges; 64-bit limits reached through a max_size() cap", "3 C12"),
    "C13": ("exploration", "twin replay (int / trivially copyable / non-trivial struct traces must be identical), conversion matrix against static_cast<To>, compile-acceptance probes of minimal-requirement archetypes (trivial variant vs non-trivial twin), ASan + ledger red zones",
            "Twin histories, ~90 (From,To) cells x ops x iterator kinds (thorough; 5 of 8 parts in quick), value-initialisation cells (member pointers etc.), 27 archetype/operation probes x standards.",
            "static_cast<To>(source) is the conversion reference; the non-trivial twin is the acceptance reference", "3 C13"),
    "C14": ("exploration", "per-reallocation growth predicate in histories/sweep + long one-at-a-time runs counting allocations and relocations",
            "1M (quick) / 50M (thorough) appends per configuration, mixed growth workloads, and every reallocating op of the hist workloads.",
            "1.5x read with integer floor", "3 C14"),
    "C15": ("exploration", "single-pass iterator monitor (shared cursor, per-position deref/increment counts, stale-copy detection), bounds monitors on multi-pass iterators, generator call log",
            "Every range op x iterator kind x position x count from every canonical state (sweep) + range-heavy random histories.",
            "iterators are the harness's; a real stream iterator behaves like StreamIt", "3 C15"),
    "C16": ("exploration", "exhaustive differential against std::vector over all pairs of sequences over {0,1,2} up to length 4 (quick) / 6 (thorough), several element types and N pairs, C++17 six-operator and C++20 <=> builds",
            "Exhaustive over the stated finite space, incl. an element type with unordered (NaN) values and member/non-member swap state twins; thorough adds C++11/14/23 and clang.",
            "std::vector comparison semantics are the reference", "3 C16"),
    "C17": ("exploration", "differential over builds: digests of a portable C++11-subset corpus compared across g++ {11,14,17,20,23} x clang++ {11,14,17,20} x GCH_DISABLE_CONCEPTS, plus per-feature compile-acceptance probes",
            "1200 (quick) / 30000 (thorough) histories per build over 10 families incl. length_error, converting sources, a throwing ADL swap and a move-only type with std::allocator; six per-feature acceptance probes: every build must accept what any build accepts.",
            "libstdc++ only; clang++ -std=c++2b excluded (toolchain defect); MSVC/libc++ unavailable", "3 C17"),
    "C18": ("fault_enumeration", "observed noexcept/type-trait table vs the README formula (compiled grid) + fault enumeration: noexcept ops must have zero throwing ticks, non-noexcept ops must deliver every injected fault (terminate = witness)",
            "Full grid of the statement for the table (built as C++11/14/17/20, thorough also 23 and clang); truthfulness over all single throw points of the enumerated cases incl. iterator and allocator-default-constructor faults, element flavours incl. throwing swap and throwing move assignment.",
            "README synopsis is the documented contract; formula re-implemented independently in the harness", "3 C18"),
    "C19": ("exploration", "generated probe programs print D, sizeof for N=0/D/D+1, alignof, inline_capacity() for the whole grid; oracle 'largest count that fits in 64 bytes'; run-time alignment check under UBSan",
            "Thorough tier covers all 3976 configurations of the statement's grid (exhaustive); quick a seeded stratified subset of ~700. 258 configurations are recorded known findings.",
            "sizeof monotone in N; x86-64 ABI of GCC 12 / Clang 14", "3 C19"),
    "C20": ("exploration", "gdb batch-mode monitor: shipped printers and natvis member paths evaluated at a checkpoint after every op of a -O0 -g inferior, compared with the program's own dump",
            "About 1800 (quick) / 240000 (thorough) checkpoints over 8 container types incl. N=0, class-type elements, stateful allocator.",
            "natvis rendering by Visual Studio is not executed (member paths only)", "3 C20"),
}

checks, na = [], []
for p in props:
    pid = p["id"]
    c = CLAIMED.get(pid)
    if not c:
        na.append({"property_id": pid, "reason": "check under construction in this session (see DESIGN.md section 3 for the planned monitor); not yet claimed"})
        continue
    level, technique, text, note, ref = c
    checks.append({
        "property_id": pid,
        "quick_cmd": "python3 bin/check.py %s --tier quick" % pid,
        "thorough_cmd": "python3 bin/check.py %s --tier thorough" % pid,
        "evidence_file": "evidence/%s.json" % pid,
        "replay_cmd_template": "python3 bin/check.py replay {path}",
        "engine": "svmon",
        "level_claimed": {"category": level, "text": text, "design_ref": "DESIGN.md section %s" % ref},
        "level_note": note,
        "technique": "runtime monitoring: " + technique,
    })

manifest = {
    "version": 1,
    "setup_cmd": "python3 bin/check.py setup",
    "hooks": {
        "guard": "GCH_SMALL_VECTOR_VERIF",
        "enable": "no source hooks: all monitors attach through the template's own extension points (instrumented element types, allocators, iterators, generators) and the public API; the guard name is reserved and unused",
        "baseline_off_cmd": "cmake --build /repo/_build -j16 && ctest --test-dir /repo/_build -j16 --timeout 900",
        "source_commits": [],
        "add_only": True,
    },
    "engines": [
        {"name": "svmon", "path": "bin/check.py", "serves_properties": [c["property_id"] for c in checks],
         "kind_free_text": "runtime monitoring harness: C++ monitor library (harness/include/svmon) compiled against /repo's header under ASan+UBSan / plain / libFuzzer / UBSan-wrap builds, engines hist (histories, sweep, fault enumeration, coverage-guided driver), limits, growth, cmp, traits, conv, xstd, layout probes, gdb monitor; python driver with content-addressed build cache"},
    ],
    "checks": checks,
    "not_applicable": na,
    "notes": "Fixes to /repo are unguarded 'fix:' commits listed in KNOWN_FINDINGS.txt; recorded findings are in KNOWN_FINDINGS*.txt.",
}
json.dump(manifest, open(os.path.join(VERIF, "MANIFEST.json"), "w"), indent=1)
print("wrote MANIFEST.json with %d checks, %d not_applicable" % (len(checks), len(na)))
